#!/bin/bash
# usage: import_round.sh <round tag, e.g. r5> <Cxx/R5SEEDn> ...   (paths relative to /tmp/seed)
# copies a sub-agent delivery into /verif/seeded/<Cxx>-<tag>seed<n>/ and confirms it with tools/verify_seed.sh; unconfirmed deliveries are dropped
tag="$1"; shift
for d in "$@"; do
  p=${d%%/*}; n=${d##*SEED}
  dst=/verif/seeded/$p-${tag}seed$n
  [ -f /tmp/seed/$d/meta.json ] && [ -f /tmp/seed/$d/patch.diff ] && [ -f /tmp/seed/$d/demo.rs ] || { echo "$d incomplete"; continue; }
  mkdir -p $dst; cp /tmp/seed/$d/{patch.diff,demo.rs,meta.json} $dst/
  fl=""; grep -q john_yu_sm9_core_verif $dst/meta.json && fl="--cfg john_yu_sm9_core_verif"
  res=$(/verif/tools/verify_seed.sh $dst "$fl" 2>&1 | tail -1); rc=$?
  echo "$p-${tag}seed$n: $res"
  case "$res" in *"demo_without_change_exit=0 demo_with_change_exit=101 suite_with_change_exit=0 suite_passed=68"*) ;; *) echo "   -> NOT CONFIRMED, dropped"; rm -rf $dst;; esac
done
