#!/bin/bash
# Confirms that every regression input in /verif/corpus still reproduces its finding: for each `fix:` commit the pre-fix
# version of the file(s) it touched is put back into /repo's working tree (never committed), the corpus files of that
# finding are replayed (must print VIOLATION), and the tree is restored. Run after any generator change, because corpus
# files are genomes and a change of the byte -> case mapping could silently turn them into other cases.
set -u
cd /verif
bad=0
chk() { # <commit> <files to restore from commit^> -- <corpus files>
  local c="$1"; shift
  local files=(); while [ "$1" != "--" ]; do files+=("$1"); shift; done; shift
  for f in "${files[@]}"; do git -C /repo show "$c^:$f" > "/repo/$f"; done
  for r in "$@"; do
    if ./run.sh replay "corpus/$r" 2>&1 | grep -q "^VIOLATION property="; then echo "ok   $c $r reproduces"; else echo "STALE $c $r does not reproduce its finding"; bad=1; fi
  done
  git -C /repo checkout -- .
}
chk 0208b38 src/fields/fp.rs -- C07/F1-set_bit-montgomery.json C13/F1-set_bit-montgomery.json
chk b5db9db src/fields/fq2.rs -- C14/F6-fq2-sqrt-real-input.json
chk 392ff91 src/lib.rs -- C08/F2-compressed-prefix-unchecked.json
chk bba89cc src/lib.rs -- C08/F4-g1-coordinate-reduced.json
chk c3cac47 src/fields/fq2.rs -- C08/F3-g2-coordinate-ge-q-panics.json
chk b4a02b9 src/lib.rs src/pairings.rs -- C01/F5-fast_pairing-leftover-identity.json C03/F5-fast_pairing-identity-panics.json C11/F5-fast_pairing-identity-panics.json
git -C /repo status --short | grep -v '^??' && { echo "repo not clean"; bad=1; }
exit $bad
