#!/bin/bash
# usage: verify_seed.sh <dir containing patch.diff + demo.rs> [rustflags] [extra cargo test args, e.g. --release]
# Independent confirmation of a seeded change in a scratch worktree (/tmp/seedverify): with the change the demo fails and
# the 66+2 existing tests pass; without it the demo passes.
set -u
D="$1"; FL="${2:-}"; XA="${3:-}"
V=/tmp/seedverify
if [ ! -d $V ]; then git -C /repo worktree add -q --detach $V HEAD && cp /repo/Cargo.lock $V/; fi
cd $V && git checkout -q -- . && rm -f tests/seed_demo.rs
git apply --check "$D/patch.diff" || { echo "RESULT patch-does-not-apply"; exit 1; }
cp "$D/demo.rs" tests/seed_demo.rs
RUSTFLAGS="$FL" cargo test --offline --test seed_demo -j 8 $XA >/tmp/seedverify.clean.log 2>&1; clean=$?
git apply "$D/patch.diff"
RUSTFLAGS="$FL" cargo test --offline --test seed_demo -j 8 $XA >/tmp/seedverify.mut.log 2>&1; mut=$?
rm -f tests/seed_demo.rs
cargo test --workspace --no-fail-fast --offline -j 8 >/tmp/seedverify.suite.log 2>&1; suite=$?
passed=$(grep -E "^test result: ok" /tmp/seedverify.suite.log | awk '{s+=$4} END{print s}')
git checkout -q -- .
echo "RESULT demo_without_change_exit=$clean demo_with_change_exit=$mut suite_with_change_exit=$suite suite_passed=$passed"
[ $clean -eq 0 ] && [ $mut -ne 0 ] && [ $suite -eq 0 ] && [ "$passed" = 68 ]
