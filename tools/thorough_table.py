#!/usr/bin/env python3
"""Prints the markdown table of DESIGN.md section 13 from /verif/evidence/thorough/*.json and RUN.log."""
import json, re, os
root='/verif/evidence/thorough'
walls={}
for l in open(root+'/RUN.log'):
    m=re.match(r'(C\d+) rc=(\d+) (\d+)s',l)
    if m: walls[m.group(1)]=(int(m.group(2)),int(m.group(3)))
print('| property | evaluations (proptest + enumerated + fuzz) | distinct non-trivial | enumerated | native-configuration evaluations | libFuzzer executions | exit | total wall |')
print('|---|---|---|---|---|---|---|---|')
for i in range(1,19):
    pid='C%02d'%i
    e=json.load(open('%s/%s.json'%(root,pid))); c=e['coverage']
    fz=sum(p.get('executions',0) or 0 for p in c.get('fuzz',{}).get('processes',[]))
    nat=c.get('native_profile',{}).get('evaluations','-')
    rc,w=walls.get(pid,('?','?'))
    print('| %s | %s | %s | %s | %s | %s | %s | %ss |'%(pid,format(c['evaluations'],','),format(c['distinct_nontrivial'],','),format(c['enumerated'],','),format(nat,',') if nat!='-' else '-',format(fz,','),rc,w))
