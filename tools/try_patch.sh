#!/bin/bash
# usage: try_patch.sh <patch.diff> <ID> [<ID> ...]
# Applies a seeded change to /repo, runs the quick check of each listed property, and ALWAYS undoes the change.
# Prints one line per property: "<ID> exit=<code> <seconds>s <first VIOLATION/INCONCLUSIVE line>"
set -u
P="$(readlink -f "$1")"; shift
cd /repo || exit 2
if ! git diff --quiet -- src; then echo "refusing: /repo/src has uncommitted changes"; exit 2; fi
if ! git apply --check "$P" 2>/dev/null; then echo "patch does not apply: $P"; exit 2; fi
git apply "$P"
trap 'git -C /repo checkout -- . >/dev/null 2>&1' EXIT
for id in "$@"; do
  t0=$(date +%s)
  out=$(VERIF_EVIDENCE_DIR=/verif/work/evidence-scratch VERIF_SEED=${VERIF_SEED:-1} /verif/run.sh "$id" quick 2>&1); rc=$?
  t1=$(date +%s)
  line=$(echo "$out" | grep -E "^(VIOLATION|INCONCLUSIVE|failure:)" | head -2 | cut -c1-300 | tr '\n' ' ')
  echo "$id exit=$rc $((t1-t0))s $line"
done
