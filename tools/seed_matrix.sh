#!/bin/bash
# usage: seed_matrix.sh [name ...]   (default: every /verif/seeded/*/ with a patch.diff)
# For each seeded change: apply to /repo, run the quick check of its own property plus the related ones listed below,
# undo, and record the outcome in /verif/seeded/<name>/trial.txt ("<ID> exit=<rc> <secs>s <first line>").
set -u
cd /verif
related() { case "$1" in
  C01) echo "C01 C03 C16 C06 C04";; C02) echo "C02 C17 C01 C06 C03 C12";; C03) echo "C03 C01 C16 C15 C12";; C04) echo "C04 C16 C05 C06";; C05) echo "C05 C16 C04 C12";;
  C06) echo "C06 C07 C12";; C07) echo "C07 C13 C06";; C08) echo "C08 C09 C18 C06";; C09) echo "C09 C08 C16 C12";; C10) echo "C10 C08 C16 C15";;
  C11) echo "C11 C17 C01 C12";; C12) echo "C12 C17 C07 C18";; C13) echo "C13 C07";; C14) echo "C14 C08 C07 C06";; C15) echo "C15 C16 C04 C06";;
  C16) echo "C16 C04 C15";; C17) echo "C17 C02 C11";; C18) echo "C18 C08";; negctl) echo "C01 C02 C03 C04 C05 C06 C07 C08 C09 C10 C11 C12 C13 C14 C15 C16 C17 C18";; esac; }
names=("$@"); if [ ${#names[@]} -eq 0 ]; then names=($(ls seeded | grep -v RESULTS)); fi
for n in "${names[@]}"; do
  [ -f seeded/$n/patch.diff ] || continue
  p=${n%%-*}
  echo "== $n"
  tools/try_patch.sh seeded/$n/patch.diff $(related $p) | tee seeded/$n/trial.txt
done
