// Embeds a fingerprint of the harness sources, so that the release binary can tell whether the dbg-profile child it talks to
// (C18) was built from the same harness sources - independently of how the library under test behaves.
use std::fs;
use std::path::Path;

fn walk(p: &Path, out: &mut Vec<std::path::PathBuf>) {
    if let Ok(rd) = fs::read_dir(p) {
        for e in rd.flatten() {
            let q = e.path();
            if q.is_dir() {
                walk(&q, out);
            } else if q.extension().map(|x| x == "rs").unwrap_or(false) {
                out.push(q);
            }
        }
    }
}

fn main() {
    let mut files = vec![];
    walk(Path::new("src"), &mut files);
    files.sort();
    let mut h: u64 = 0xcbf29ce484222325;
    for f in files {
        for b in fs::read(&f).unwrap_or_default() {
            h ^= b as u64;
            h = h.wrapping_mul(0x100000001b3);
        }
    }
    println!("cargo:rustc-env=SM9VERIF_SRC_HASH={}", h);
    println!("cargo:rerun-if-changed=src");
    println!("cargo:rerun-if-changed=build.rs");
}
