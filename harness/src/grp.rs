//! One abstraction over (sm9_core::G1, reference E(Fq)) and (sm9_core::G2, reference E'(Fq2)) so that the
//! group properties are written once. Also the generic point generator with representation classes.
use crate::conv::*;
use crate::gen::{felt, fr_of, scalar, Md, Rep};
use crate::rf::{self, Aff, Fld, F, R2};
use crate::runner::Failure;
use crate::src::{hex, Src};
use crate::zp;
use num_bigint::BigUint;
use num_traits::{One, Zero};
use sm9_core::{AffineG1, AffineG2, CurveError, Fq, Fq2, Fr, Group, G1, G2};

pub trait Grp: 'static {
    type L: Group + Copy + std::fmt::Debug;
    type B: Fld + Copy;
    const NAME: &'static str;
    /// byte length of one coordinate
    const CLEN: usize;
    fn b() -> Self::B;
    fn gen_mul(k: &BigUint) -> Aff<Self::B>;
    fn new(x: &Self::B, y: &Self::B, z: &Self::B) -> Self::L;
    fn coords(p: &Self::L) -> (Self::B, Self::B, Self::B);
    fn rmul(k: Fr, p: Self::L) -> Self::L; // the `Fr * P` operator form
    fn lambda(s: &mut Src) -> (Self::B, &'static str);
    /// a root of unity of small order (1, 2, 3, 4, 6) of the base field, as an element of Self::B: scale factors related
    /// by such a factor have equal squares / cubes / fourth powers
    fn small_root_of_unity(i: usize) -> (Self::B, &'static str);
    /// a rescaling factor chosen so that a COORDINATE of the representative (lambda^2 x or lambda^3 y) is a boundary value
    fn lambda_for_coords(_s: &mut Src, _p: &(Self::B, Self::B)) -> Option<(Self::B, &'static str)> {
        None
    }
    fn arb_base(s: &mut Src) -> Self::B;
    fn show_b(x: &Self::B) -> String;
    fn enc_b(x: &Self::B) -> Vec<u8>;
    fn b_is_odd(x: &Self::B) -> bool; // parity used by point compression
    // encoders / decoders
    fn to_slice(p: Self::L) -> Vec<u8>;
    fn to_uncompressed(p: Self::L) -> Vec<u8>;
    fn to_compressed(p: Self::L) -> Vec<u8>;
    fn from_slice(b: &[u8]) -> Result<Self::L, CurveError>;
    fn from_uncompressed(b: &[u8]) -> Result<Self::L, CurveError>;
    fn from_compressed(b: &[u8]) -> Result<Self::L, CurveError>;
    /// validated affine construction: Ok((x, y)) of the stored affine point
    fn affine_new(x: &Self::B, y: &Self::B) -> Result<(Self::B, Self::B), String>;
    /// Affine::from_jacobian then the stored x, y; None for the identity
    fn affine_from_jacobian(p: Self::L) -> Option<(Self::B, Self::B)>;
    /// G::from(Affine::from_jacobian(p))
    fn affine_roundtrip(p: Self::L) -> Option<Self::L>;

    /// further publicly reachable ways of computing A+B, A-B, -A (e.g. operator forms of an exposed inner type);
    /// each must denote the same point as the plain operator
    fn extra_forms(_a: Self::L, _b: Self::L) -> Vec<(&'static str, Self::L)> {
        vec![]
    }
    /// `==`, `is_zero` and the affine conversion through other publicly reachable routes (inner type of G1)
    fn extra_eq(_a: &Self::L, _b: &Self::L) -> Option<bool> {
        None
    }
    fn extra_is_zero(_a: &Self::L) -> Option<bool> {
        None
    }
    fn extra_to_affine(_a: &Self::L) -> Option<Option<(Self::B, Self::B)>> {
        None
    }
    fn denotes(p: &Self::L) -> Aff<Self::B> {
        let (x, y, z) = Self::coords(p);
        jac_to_aff(&x, &y, &z)
    }
    fn affine(p: &(Self::B, Self::B)) -> Self::L {
        Self::new(&p.0, &p.1, &Self::B::one())
    }
    fn rescaled(p: &(Self::B, Self::B), l: &Self::B) -> Self::L {
        let l2 = l.sqr();
        Self::new(&p.0.mul(&l2), &p.1.mul(&l2.mul(l)), l)
    }
    fn show(p: &Self::L) -> String {
        let (x, y, z) = Self::coords(p);
        format!("{}(x={}, y={}, z={})", Self::NAME, Self::show_b(&x), Self::show_b(&y), Self::show_b(&z))
    }
    fn show_aff(a: &Aff<Self::B>) -> String {
        match a {
            None => "O".into(),
            Some((x, y)) => format!("({}, {})", Self::show_b(x), Self::show_b(y)),
        }
    }
    fn enc_raw(p: &(Self::B, Self::B)) -> Vec<u8> {
        let mut v = Self::enc_b(&p.0);
        v.extend_from_slice(&Self::enc_b(&p.1));
        v
    }
    fn enc_uncompressed(p: &(Self::B, Self::B)) -> Vec<u8> {
        with_prefix(4, &Self::enc_raw(p))
    }
    fn enc_compressed(p: &(Self::B, Self::B)) -> Vec<u8> {
        with_prefix(if Self::b_is_odd(&p.1) { 3 } else { 2 }, &Self::enc_b(&p.0))
    }
}

pub struct GA;
pub struct GB;

pub fn fq_roots_of_unity(i: usize) -> (F, &'static str) {
    let q = zp::q();
    let g = BigUint::from(2u32); // 2 is a non-residue mod q, and not a cube
    let w = g.modpow(&((q - 1u32) / 3u32), q);
    let w = if w.is_one() { BigUint::from(3u32).modpow(&((q - 1u32) / 3u32), q) } else { w };
    let im = g.modpow(&((q - 1u32) / 4u32), q);
    match i % 6 {
        0 => (F::one(), "1"),
        1 => (F::one().neg(), "-1"),
        2 => (rf::f_from_big(&w), "omega"),
        3 => (rf::f_from_big(&((&w * &w) % q)), "omega^2"),
        4 => (rf::f_from_big(&im), "sqrt(-1)"),
        _ => (rf::f_from_big(&((q - &w) % q)), "-omega"),
    }
}

impl Grp for GA {
    type L = G1;
    type B = F;
    const NAME: &'static str = "G1";
    const CLEN: usize = 32;
    fn b() -> F {
        rf::b1()
    }
    fn gen_mul(k: &BigUint) -> Aff<F> {
        rf::g1_mul(k)
    }
    fn new(x: &F, y: &F, z: &F) -> G1 {
        G1::new(fq_of_f(x), fq_of_f(y), fq_of_f(z))
    }
    fn coords(p: &G1) -> (F, F, F) {
        (f_of_fq(&p.x()), f_of_fq(&p.y()), f_of_fq(&p.z()))
    }
    fn rmul(k: Fr, p: G1) -> G1 {
        k * p
    }
    fn lambda(s: &mut Src) -> (F, &'static str) {
        match s.choose(6) {
            5 => (rf::f_from_big(&crate::gen::mont_confusion(s, Md::Q)), "mont-const"),
            4 => {
                // derived: choose a boundary value t for z^-2 (or z^-1 if t is a non-residue) and solve for lambda
                let t = felt(s, Md::Q).v;
                let t = if t.is_zero() { BigUint::one() } else { t };
                let q = zp::q();
                let l = match zp::sqrt_mod_5mod8(&t, q) {
                    Some(rt) => zp::inv_mod(&rt, q).unwrap(),
                    None => zp::inv_mod(&t, q).unwrap(),
                };
                (rf::f_from_big(&l), "derived")
            }
            0 => (F::one().neg(), "-1"),
            1 => (F::from(2u64), "2"),
            _ => {
                let v = felt(s, Md::Q).v;
                let v = if v.is_zero() { BigUint::one() } else { v };
                (rf::f_from_big(&v), "lambda")
            }
        }
    }
    fn small_root_of_unity(i: usize) -> (F, &'static str) {
        fq_roots_of_unity(i)
    }
    fn lambda_for_coords(s: &mut Src, p: &(F, F)) -> Option<(F, &'static str)> {
        let q = zp::q();
        let ts = [BigUint::one(), q - 1u32, BigUint::from(2u32), BigUint::from(3u32), (q + 1u32) >> 1];
        let ti = s.choose(5);
        let t = ts[ti].clone();
        let kind = s.choose(3);
        if kind == 2 {
            // the z of the DOUBLE, 2*Y*Z = 2 lambda^4 y, is a boundary value t (an accumulator that becomes "affine" midway):
            // lambda = (t / 2y)^(1/4); a fourth root exists for 1 in 4 values, so the targets are tried in turn
            let inv2y = zp::inv_mod(&((rf::f_to_big(&p.1) * 2u32) % q), q)?;
            for j in 0..5 {
                let c = zp::mul_mod(&ts[(ti + j) % 5], &inv2y, q);
                if let Some(s1) = zp::sqrt_mod_5mod8(&c, q) {
                    if let Some(l) = zp::sqrt_mod_5mod8(&s1, q) {
                        if !l.is_zero() {
                            return Some((rf::f_from_big(&l), "Z(2P)-target"));
                        }
                    }
                }
            }
            return None;
        }
        if kind == 0 {
            // X = lambda^2 x = t  =>  lambda = sqrt(t / x)
            let c = zp::mul_mod(&t, &zp::inv_mod(&rf::f_to_big(&p.0), q)?, q);
            let l = zp::sqrt_mod_5mod8(&c, q)?;
            if l.is_zero() {
                return None;
            }
            Some((rf::f_from_big(&l), "X-target"))
        } else {
            // Y = lambda^3 y = t  =>  lambda = cbrt(t / y); q = 4 (mod 9): cube roots of cubic residues are c^((2q+1)/9)
            let c = zp::mul_mod(&t, &zp::inv_mod(&rf::f_to_big(&p.1), q)?, q);
            let l = c.modpow(&((q * 2u32 + 1u32) / 9u32), q);
            if l.is_zero() || zp::mul_mod(&zp::mul_mod(&l, &l, q), &l, q) != c {
                return None; // not a cubic residue
            }
            Some((rf::f_from_big(&l), "Y-target"))
        }
    }
    fn arb_base(s: &mut Src) -> F {
        rf::f_from_big(&felt(s, Md::Q).v)
    }
    fn show_b(x: &F) -> String {
        show_f(x)
    }
    fn enc_b(x: &F) -> Vec<u8> {
        rf::f_to_be(x).to_vec()
    }
    fn b_is_odd(x: &F) -> bool {
        f_is_odd(x)
    }
    fn to_slice(p: G1) -> Vec<u8> {
        p.to_slice().to_vec()
    }
    fn to_uncompressed(p: G1) -> Vec<u8> {
        p.to_uncompressed().to_vec()
    }
    fn to_compressed(p: G1) -> Vec<u8> {
        p.to_compressed().to_vec()
    }
    fn from_slice(b: &[u8]) -> Result<G1, CurveError> {
        G1::from_slice(b)
    }
    fn from_uncompressed(b: &[u8]) -> Result<G1, CurveError> {
        G1::from_uncompressed(b)
    }
    fn from_compressed(b: &[u8]) -> Result<G1, CurveError> {
        G1::from_compressed(b)
    }
    fn affine_new(x: &F, y: &F) -> Result<(F, F), String> {
        AffineG1::new(fq_of_f(x), fq_of_f(y)).map(|a| (f_of_fq(&a.x()), f_of_fq(&a.y()))).map_err(|e| format!("{:?}", e))
    }
    fn affine_from_jacobian(p: G1) -> Option<(F, F)> {
        AffineG1::from_jacobian(p).map(|a| (f_of_fq(&a.x()), f_of_fq(&a.y())))
    }
    fn affine_roundtrip(p: G1) -> Option<G1> {
        AffineG1::from_jacobian(p).map(G1::from)
    }
    /// `G1` is declared `pub struct G1(pub groups::G1)`: the operator forms of the inner Jacobian type are reachable
    /// by any user as `a.0 + b.0`, `a.0 + &b.0`, `&a.0 + b.0`, `t += b.0`, `t += &b.0`, `a.0 - b.0`, `-a.0`
    fn extra_eq(a: &G1, b: &G1) -> Option<bool> {
        Some(a.0 == b.0)
    }
    fn extra_is_zero(a: &G1) -> Option<bool> {
        use sm9_core::Zero;
        Some(a.0.is_zero())
    }
    fn extra_to_affine(a: &G1) -> Option<Option<(F, F)>> {
        // the inner affine type only exposes x()/y() by reference to the internal field type; go back through the public
        // wrapper: to_affine().to_jacobian() has z = 1 and carries the affine coordinates
        Some(a.0.to_affine().map(|p| {
            let j = G1(p.to_jacobian());
            (f_of_fq(&j.x()), f_of_fq(&j.y()))
        }))
    }
    fn extra_forms(a: G1, b: G1) -> Vec<(&'static str, G1)> {
        let mut out = vec![];
        out.push(("add:a.0 + b.0", G1(a.0 + b.0)));
        out.push(("add:a.0 + &b.0", G1(a.0 + &b.0)));
        out.push(("add:&a.0 + b.0", G1(&a.0 + b.0)));
        let mut t = a.0;
        t += b.0;
        out.push(("add:t += b.0", G1(t)));
        let mut t = a.0;
        t += &b.0;
        out.push(("add:t += &b.0", G1(t)));
        out.push(("sub:a.0 - b.0", G1(a.0 - b.0)));
        out.push(("neg:-a.0", G1(-a.0)));
        out
    }
}

impl Grp for GB {
    type L = G2;
    type B = R2;
    const NAME: &'static str = "G2";
    const CLEN: usize = 64;
    fn b() -> R2 {
        rf::b2()
    }
    fn gen_mul(k: &BigUint) -> Aff<R2> {
        rf::g2_mul(k)
    }
    fn new(x: &R2, y: &R2, z: &R2) -> G2 {
        G2::new(fq2_of_r2(x), fq2_of_r2(y), fq2_of_r2(z))
    }
    fn coords(p: &G2) -> (R2, R2, R2) {
        (r2_of_fq2(&p.x()), r2_of_fq2(&p.y()), r2_of_fq2(&p.z()))
    }
    fn rmul(k: Fr, p: G2) -> G2 {
        k * p
    }
    fn lambda(s: &mut Src) -> (R2, &'static str) {
        match s.choose(13) {
            12 => {
                // norm one: w / conj(w)  (an inverse that special-cases the norm must still conjugate)
                let w = R2::new(rf::f_from_big(&felt(s, Md::Q).v), rf::f_from_big(&felt(s, Md::Q).v));
                match w.conj().inv() {
                    Some(ci) => (w.mul(&ci), "norm-one"),
                    None => (R2::one().neg(), "-1"),
                }
            }
            11 => {
                // z = a + b*u with a, b in {0, R^-1, 2R^-1, -R^-1, R, R^2, R^-2}: stored limbs equal to small integers etc.
                let c = rf::f_from_big(&crate::gen::mont_confusion(s, Md::Q));
                match s.choose(3) {
                    0 => (R2::new(c, F::zero()), "mont-const"),
                    1 => (R2::new(F::zero(), c), "mont-const*u"),
                    _ => (R2::new(c, rf::f_from_big(&crate::gen::mont_confusion(s, Md::Q))), "mont-const-both"),
                }
            }
            10 => {
                // components related by a small root of unity of Fq: z = c + (zeta*c) u  (quadratic forms like c0^2 + c1^2
                // or c0^2 + c0 c1 + c1^2 vanish on such lines)
                let c = rf::f_from_big(&felt(s, Md::Q).v);
                let c = if Fld::is_zero(&c) { F::one() } else { c };
                let (zeta, _) = fq_roots_of_unity(1 + s.choose(5));
                (R2::new(c, c.mul(&zeta)), "root-of-unity-line")
            }
            8 | 9 => {
                // component-wise boundary: z = a + b*u with a, b from {0, 1, -1, 2, boundary field element}
                let comp = |s: &mut Src| -> F {
                    match s.choose(5) {
                        0 => F::zero(),
                        1 => F::one(),
                        2 => F::one().neg(),
                        3 => F::from(2u64),
                        _ => rf::f_from_big(&felt(s, Md::Q).v),
                    }
                };
                let z = R2::new(comp(s), comp(s));
                if Fld::is_zero(&z) {
                    (R2::one(), "1")
                } else {
                    (z, "componentwise")
                }
            }
            6 | 7 => {
                // derived: choose t = a + b*u with boundary components (0, 1, -1, 2 or a boundary field element) for
                // z^-2 (or z^-1 if t is not a square in Fq2) and solve for lambda
                let comp = |s: &mut Src| -> F {
                    match s.choose(5) {
                        0 => F::zero(),
                        1 => F::one(),
                        2 => F::one().neg(),
                        3 => F::from(2u64),
                        _ => rf::f_from_big(&felt(s, Md::Q).v),
                    }
                };
                let mut t = R2::new(comp(s), comp(s));
                if Fld::is_zero(&t) {
                    t = R2::one();
                }
                let l = match t.sqrt() {
                    Some(rt) => rt.inv().unwrap(),
                    None => t.inv().unwrap(),
                };
                (l, "derived")
            }
            0 => (R2::one().neg(), "-1"),
            1 => (R2::new(F::from(2u64), F::zero()), "2"),
            2 => (R2::new(F::zero(), F::one()), "u"),
            _ => {
                let a = felt(s, Md::Q).v;
                let b = felt(s, Md::Q).v;
                let x = R2::new(rf::f_from_big(&a), rf::f_from_big(&b));
                if Fld::is_zero(&x) {
                    (R2::one(), "1")
                } else {
                    (x, "lambda")
                }
            }
        }
    }
    fn small_root_of_unity(i: usize) -> (R2, &'static str) {
        let (z, n) = fq_roots_of_unity(i);
        (R2::new(z, F::zero()), n)
    }
    fn lambda_for_coords(s: &mut Src, p: &(R2, R2)) -> Option<(R2, &'static str)> {
        let ts = [R2::one(), R2::one().neg(), R2::new(F::from(2u64), F::zero()), R2::new(F::zero(), F::one()), R2::new(F::one(), F::one())];
        let ti = s.choose(5);
        let t = ts[ti];
        if s.choose(3) == 2 {
            // z of the double = 2 lambda^4 y = t (see G1)
            let inv2y = p.1.add(&p.1).inv()?;
            for j in 0..5 {
                let c = ts[(ti + j) % 5].mul(&inv2y);
                if let Some(s1) = c.sqrt() {
                    if let Some(l) = s1.sqrt() {
                        if !Fld::is_zero(&l) {
                            return Some((l, "Z(2P)-target"));
                        }
                    }
                }
            }
            return None;
        }
        // X = lambda^2 x = t  =>  lambda = sqrt(t / x)
        let c = t.mul(&p.0.inv()?);
        let l = c.sqrt()?;
        if Fld::is_zero(&l) {
            return None;
        }
        Some((l, "X-target"))
    }
    fn arb_base(s: &mut Src) -> R2 {
        R2::new(rf::f_from_big(&felt(s, Md::Q).v), rf::f_from_big(&felt(s, Md::Q).v))
    }
    fn show_b(x: &R2) -> String {
        show_r2(x)
    }
    fn enc_b(x: &R2) -> Vec<u8> {
        enc_r2(x)
    }
    fn b_is_odd(x: &R2) -> bool {
        f_is_odd(&x.a)
    }
    fn to_slice(p: G2) -> Vec<u8> {
        p.to_slice().to_vec()
    }
    fn to_uncompressed(p: G2) -> Vec<u8> {
        p.to_uncompressed().to_vec()
    }
    fn to_compressed(p: G2) -> Vec<u8> {
        p.to_compressed().to_vec()
    }
    fn from_slice(b: &[u8]) -> Result<G2, CurveError> {
        G2::from_slice(b)
    }
    fn from_uncompressed(b: &[u8]) -> Result<G2, CurveError> {
        G2::from_uncompressed(b)
    }
    fn from_compressed(b: &[u8]) -> Result<G2, CurveError> {
        G2::from_compressed(b)
    }
    fn affine_new(x: &R2, y: &R2) -> Result<(R2, R2), String> {
        AffineG2::new(fq2_of_r2(x), fq2_of_r2(y)).map(|a| (r2_of_fq2(&a.x()), r2_of_fq2(&a.y()))).map_err(|e| format!("{:?}", e))
    }
    fn affine_from_jacobian(p: G2) -> Option<(R2, R2)> {
        AffineG2::from_jacobian(p).map(|a| (r2_of_fq2(&a.x()), r2_of_fq2(&a.y())))
    }
    fn affine_roundtrip(p: G2) -> Option<G2> {
        AffineG2::from_jacobian(p).map(G2::from)
    }
}

pub struct Pt<G: Grp> {
    pub k: BigUint,
    pub rep: Rep,
    pub how: String,
    pub val: G::L,
    pub aff: Aff<G::B>,
}
impl<G: Grp> Clone for Pt<G> {
    fn clone(&self) -> Self {
        Pt { k: self.k.clone(), rep: self.rep, how: self.how.clone(), val: self.val, aff: self.aff.clone() }
    }
}

fn opfail(what: &str, detail: String) -> Failure {
    Failure::new(&format!("operand-construction|{}", what), detail)
}

/// A value denoting k*generator, in representation category `cat` (0 affine z=1, 1 library Jacobian, 2 rescaled by
/// lambda; for k = 0: 0 canonical identity (0,1,0), 1 the (x,y,0) left behind by P - P, 2 arbitrary (x, y, 0)).
/// Every representative is validated against the reference before use.
pub fn point<G: Grp>(s: &mut Src, k: &BigUint, cat: usize) -> Result<Pt<G>, Failure> {
    let r = zp::r();
    let k = k % r;
    let aff = G::gen_mul(&k);
    if k.is_zero() {
        let (rep, how, val) = match cat % 3 {
            0 => (Rep::ZeroCanon, format!("{}::zero()", G::NAME), G::L::zero()),
            1 => {
                let m = BigUint::one() + BigUint::from(s.choose(200) as u32);
                let jac = s.bool();
                let p = if jac { G::L::one() * fr_of(&m) } else { G::affine(&G::gen_mul(&m).unwrap()) };
                (Rep::ZeroLeftover, format!("P-P with P={}*gen ({})", m, if jac { "jacobian" } else { "z=1" }), p - p)
            }
            _ => {
                let x = G::arb_base(s);
                let y = G::arb_base(s);
                (Rep::ZeroArb, format!("new({}, {}, 0)", G::show_b(&x), G::show_b(&y)), G::new(&x, &y, &G::B::zero()))
            }
        };
        if !G::coords(&val).2.is_zero() {
            return Err(opfail("identity", format!("{} has z != 0: {}", how, G::show(&val))));
        }
        return Ok(Pt { k, rep, how, val, aff });
    }
    let a = aff.unwrap();
    let (rep, how, val) = match cat % 3 {
        0 => (Rep::Affine, "affine z=1".to_string(), G::affine(&a)),
        1 => match s.choose(4) {
            0 => (Rep::LibJac, "one()*k".to_string(), G::L::one() * fr_of(&k)),
            1 => {
                let x = scalar(s).k;
                let y = zp::sub_mod(&k, &x, r);
                (Rep::LibJac, format!("one()*{:x} + one()*{:x}", x, y), G::L::one() * fr_of(&x) + G::L::one() * fr_of(&y))
            }
            2 => {
                let j = BigUint::from(2 + s.choose(6) as u32);
                let base = zp::mul_mod(&k, &zp::inv_mod(&j, r).unwrap(), r);
                (Rep::LibJac, format!("(one()*{:x})*{}", base, j), (G::L::one() * fr_of(&base)) * fr_of(&j))
            }
            _ => {
                let nk = zp::neg_mod(&k, r);
                (Rep::LibJac, "-(one()*(r-k))".to_string(), -(G::L::one() * fr_of(&nk)))
            }
        },
        _ => {
            let (l, ln) = match if s.choose(6) == 0 { G::lambda_for_coords(s, &a) } else { None } {
                Some(x) => x,
                None => G::lambda(s),
            };
            (Rep::Rescaled, format!("rescaled by {} = {}", ln, G::show_b(&l)), G::rescaled(&a, &l))
        }
    };
    let den = G::denotes(&val);
    if den != Some(a) {
        return Err(opfail(
            G::NAME,
            format!("k={:x} built as [{}] = {} denotes {} instead of k*gen = {}", k, how, G::show(&val), G::show_aff(&den), G::show_aff(&Some(a))),
        ));
    }
    Ok(Pt { k, rep, how, val, aff: Some(a) })
}

pub fn desc_pt<G: Grp>(p: &Pt<G>) -> serde_json::Value {
    serde_json::json!({"k": format!("{:x}", p.k), "rep": p.rep.name(), "how": p.how, "value": G::show(&p.val)})
}

pub fn hexv(b: &[u8]) -> String {
    hex(b)
}

#[allow(dead_code)]
fn _unused(_: Fq, _: Fq2) {}

/// A G1 point chosen by its x-coordinate (G1 is the whole curve: cofactor 1): x from the boundary classes of `felt`
/// (incremented until x^3 + 5 is a residue), y = +-sqrt(x^3 + 5), in representation category `cat` (0 affine, 2 rescaled;
/// 1 = a library Jacobian representative obtained as (P + P) - P). The discrete log is unknown (reported as 0).
pub fn g1_point_from_x(s: &mut Src, cat: usize) -> Result<Pt<GA>, Failure> {
    let q = zp::q();
    let mut x = felt(s, Md::Q).v;
    let y = loop {
        let rhs = zp::add_mod(&zp::mul_mod(&zp::mul_mod(&x, &x, q), &x, q), &BigUint::from(5u32), q);
        if let Some(y) = zp::sqrt_mod_5mod8(&rhs, q) {
            if !y.is_zero() {
                break y;
            }
        }
        x = (x + 1u32) % q;
    };
    let y = if s.bool() { y } else { zp::neg_mod(&y, q) };
    let a = (rf::f_from_big(&x), rf::f_from_big(&y));
    let (rep, how, val) = match cat % 3 {
        0 => (Rep::Affine, format!("affine point with chosen x = {:x}", x), GA::affine(&a)),
        1 => {
            let p = GA::affine(&a);
            (Rep::LibJac, format!("(P+P)-P for the point with chosen x = {:x}", x), (p + p) - p)
        }
        _ => {
            let (l, ln) = GA::lambda(s);
            (Rep::Rescaled, format!("point with chosen x = {:x} rescaled by {} = {}", x, ln, GA::show_b(&l)), GA::rescaled(&a, &l))
        }
    };
    if GA::denotes(&val) != Some(a) {
        return Err(opfail("G1-from-x", format!("[{}] = {} does not denote ({:x}, {:x})", how, GA::show(&val), x, y)));
    }
    Ok(Pt { k: BigUint::zero(), rep, how, val, aff: Some(a) })
}
