//! Conversions between sm9_core's public types and the two reference models.
//! Library values are observed only through their public byte encodings / accessors.
use crate::rf::{self, Aff, Fld, F, P12, R2};
use crate::zp;
use num_bigint::BigUint;
use sm9_core::{Fq, Fq2, Fr, Gt, G1, G2};

pub fn fq_of_big(v: &BigUint) -> Fq {
    debug_assert!(v < zp::q());
    Fq::from_slice(&zp::be32(v)).expect("32-byte from_slice")
}
pub fn fr_of_big(v: &BigUint) -> Fr {
    debug_assert!(v < zp::r());
    Fr::from_slice(&zp::be32(v)).expect("32-byte from_slice")
}
pub fn big_of_fq(x: &Fq) -> BigUint {
    zp::from_be(&x.to_slice())
}
pub fn big_of_fr(x: &Fr) -> BigUint {
    zp::from_be(&x.to_slice())
}
pub fn fq_of_f(x: &F) -> Fq {
    Fq::from_slice(&rf::f_to_be(x)).expect("32-byte from_slice")
}
pub fn f_of_fq(x: &Fq) -> F {
    rf::f_from_be(&x.to_slice())
}
pub fn fq2_of_r2(x: &R2) -> Fq2 {
    Fq2::new(fq_of_f(&x.a), fq_of_f(&x.b))
}
pub fn r2_of_fq2(x: &Fq2) -> R2 {
    R2::new(f_of_fq(&x.real()), f_of_fq(&x.imaginary()))
}
pub fn fq2_of_bigs(re: &BigUint, im: &BigUint) -> Fq2 {
    Fq2::new(fq_of_big(re), fq_of_big(im))
}
pub fn bigs_of_fq2(x: &Fq2) -> (BigUint, BigUint) {
    (big_of_fq(&x.real()), big_of_fq(&x.imaginary()))
}

/// The point a Jacobian triple denotes, computed by the reference: (X/Z^2, Y/Z^3), None if Z = 0
pub fn jac_to_aff<T: Fld>(x: &T, y: &T, z: &T) -> Aff<T> {
    let zi = z.inv()?;
    let zi2 = zi.sqr();
    Some((x.mul(&zi2), y.mul(&zi2.mul(&zi))))
}
pub fn g1_denotes(p: &G1) -> Aff<F> {
    jac_to_aff(&f_of_fq(&p.x()), &f_of_fq(&p.y()), &f_of_fq(&p.z()))
}
pub fn g2_denotes(p: &G2) -> Aff<R2> {
    jac_to_aff(&r2_of_fq2(&p.x()), &r2_of_fq2(&p.y()), &r2_of_fq2(&p.z()))
}
pub fn g1_affine(p: &(F, F)) -> G1 {
    G1::new(fq_of_f(&p.0), fq_of_f(&p.1), Fq::one())
}
pub fn g2_affine(p: &(R2, R2)) -> G2 {
    G2::new(fq2_of_r2(&p.0), fq2_of_r2(&p.1), Fq2::one())
}
/// (l^2 x, l^3 y, l) computed by the reference
pub fn g1_rescaled(p: &(F, F), l: &F) -> G1 {
    let l2 = l.sqr();
    G1::new(fq_of_f(&p.0.mul(&l2)), fq_of_f(&p.1.mul(&l2.mul(l))), fq_of_f(l))
}
pub fn g2_rescaled(p: &(R2, R2), l: &R2) -> G2 {
    let l2 = l.sqr();
    G2::new(fq2_of_r2(&p.0.mul(&l2)), fq2_of_r2(&p.1.mul(&l2.mul(l))), fq2_of_r2(l))
}

pub fn gt_to_p12(g: &Gt) -> Option<P12> {
    P12::from_sm9_bytes(&g.to_slice())
}

/// SM9 byte formats built from reference coordinates
pub fn enc_g1_raw(p: &(F, F)) -> Vec<u8> {
    let mut v = rf::f_to_be(&p.0).to_vec();
    v.extend_from_slice(&rf::f_to_be(&p.1));
    v
}
pub fn enc_r2(x: &R2) -> Vec<u8> {
    // imaginary part first
    let mut v = rf::f_to_be(&x.b).to_vec();
    v.extend_from_slice(&rf::f_to_be(&x.a));
    v
}
pub fn enc_g2_raw(p: &(R2, R2)) -> Vec<u8> {
    let mut v = enc_r2(&p.0);
    v.extend_from_slice(&enc_r2(&p.1));
    v
}
pub fn f_is_odd(x: &F) -> bool {
    rf::f_to_be(x)[31] & 1 == 1
}
pub fn enc_g1_compressed(p: &(F, F)) -> Vec<u8> {
    let mut v = vec![if f_is_odd(&p.1) { 3u8 } else { 2u8 }];
    v.extend_from_slice(&rf::f_to_be(&p.0));
    v
}
pub fn enc_g2_compressed(p: &(R2, R2)) -> Vec<u8> {
    let mut v = vec![if f_is_odd(&p.1.a) { 3u8 } else { 2u8 }];
    v.extend_from_slice(&enc_r2(&p.0));
    v
}
pub fn with_prefix(prefix: u8, body: &[u8]) -> Vec<u8> {
    let mut v = vec![prefix];
    v.extend_from_slice(body);
    v
}

pub fn show_f(x: &F) -> String {
    crate::src::hex(&rf::f_to_be(x))
}
pub fn show_r2(x: &R2) -> String {
    format!("({} + {}*u)", show_f(&x.a), show_f(&x.b))
}
pub fn show_g1(p: &G1) -> String {
    format!(
        "G1(x={}, y={}, z={})",
        crate::src::hex(&p.x().to_slice()),
        crate::src::hex(&p.y().to_slice()),
        crate::src::hex(&p.z().to_slice())
    )
}
pub fn show_g2(p: &G2) -> String {
    format!(
        "G2(x={}, y={}, z={})",
        crate::src::hex(&p.x().to_slice()),
        crate::src::hex(&p.y().to_slice()),
        crate::src::hex(&p.z().to_slice())
    )
}
