#![allow(unused_imports, dead_code)]
//! sm9verif: property-based testing / fuzzing machinery for John-Yu/SM9_core (see /verif/DESIGN.md).
pub mod conv;
pub mod fuzzglue;
pub mod gen;
pub mod grp;
pub mod props;
pub mod rf;
pub mod runner;
pub mod selftest;
pub mod src;
pub mod zp;
