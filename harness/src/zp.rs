//! Oracle 1: plain integers (num-bigint) modulo q and r. Slow but unarguable.
use num_bigint::BigUint;
use num_traits::{One, Zero};
use std::sync::OnceLock;

pub const Q_HEX: &str = "B640000002A3A6F1D603AB4FF58EC74521F2934B1A7AEEDBE56F9B27E351457D";
pub const R_HEX: &str = "B640000002A3A6F1D603AB4FF58EC74449F2934B18EA8BEEE56EE19CD69ECF25";
pub const T_HEX: &str = "600000000058F98A";

pub fn hexn(s: &str) -> BigUint {
    let clean: String = s.chars().filter(|c| !c.is_whitespace()).collect();
    BigUint::parse_bytes(clean.as_bytes(), 16).expect("hex constant")
}

pub struct Consts {
    pub q: BigUint,
    pub r: BigUint,
    pub t: BigUint,
    pub two256: BigUint,
    pub two512: BigUint,
    /// R^-1 mod q and mod r (R = 2^256), to build values with a chosen Montgomery representative
    pub rinv_q: BigUint,
    pub rinv_r: BigUint,
    /// twist cofactor h = 2q - r
    pub h: BigUint,
    /// (q^12 - 1) / r
    pub final_exp: BigUint,
    /// 6t + 2
    pub loop_n: BigUint,
}

pub fn c() -> &'static Consts {
    static C: OnceLock<Consts> = OnceLock::new();
    C.get_or_init(|| {
        let q = hexn(Q_HEX);
        let r = hexn(R_HEX);
        let t = hexn(T_HEX);
        // derive q and r from t as the standard defines them, and insist they match the literals
        let t2 = &t * &t;
        let t3 = &t2 * &t;
        let t4 = &t3 * &t;
        let qq = &t4 * 36u32 + &t3 * 36u32 + &t2 * 24u32 + &t * 6u32 + 1u32;
        let rr = &t4 * 36u32 + &t3 * 36u32 + &t2 * 18u32 + &t * 6u32 + 1u32;
        assert_eq!(q, qq, "q != 36t^4+36t^3+24t^2+6t+1");
        assert_eq!(r, rr, "r != 36t^4+36t^3+18t^2+6t+1");
        let two256 = BigUint::one() << 256;
        let two512 = BigUint::one() << 512;
        let rinv_q = inv_mod(&(&two256 % &q), &q).unwrap();
        let rinv_r = inv_mod(&(&two256 % &r), &r).unwrap();
        let h = &q * 2u32 - &r;
        let q12 = q.pow(12);
        let fe = (&q12 - 1u32) / &r;
        assert!(((&q12 - 1u32) % &r).is_zero());
        let loop_n = &t * 6u32 + 2u32;
        Consts { q, r, t, two256, two512, rinv_q, rinv_r, h, final_exp: fe, loop_n }
    })
}

pub fn q() -> &'static BigUint {
    &c().q
}
pub fn r() -> &'static BigUint {
    &c().r
}

pub fn be32(v: &BigUint) -> [u8; 32] {
    let b = v.to_bytes_be();
    assert!(b.len() <= 32, "value does not fit 32 bytes");
    let mut o = [0u8; 32];
    o[32 - b.len()..].copy_from_slice(&b);
    o
}
pub fn be64(v: &BigUint) -> [u8; 64] {
    let b = v.to_bytes_be();
    assert!(b.len() <= 64, "value does not fit 64 bytes");
    let mut o = [0u8; 64];
    o[64 - b.len()..].copy_from_slice(&b);
    o
}
pub fn from_be(b: &[u8]) -> BigUint {
    BigUint::from_bytes_be(b)
}

pub fn add_mod(a: &BigUint, b: &BigUint, p: &BigUint) -> BigUint {
    (a + b) % p
}
pub fn sub_mod(a: &BigUint, b: &BigUint, p: &BigUint) -> BigUint {
    ((a % p) + p - (b % p)) % p
}
pub fn mul_mod(a: &BigUint, b: &BigUint, p: &BigUint) -> BigUint {
    (a * b) % p
}
pub fn neg_mod(a: &BigUint, p: &BigUint) -> BigUint {
    (p - (a % p)) % p
}
/// inverse by Fermat (p prime): a^(p-2); None for 0
pub fn inv_mod(a: &BigUint, p: &BigUint) -> Option<BigUint> {
    let a = a % p;
    if a.is_zero() {
        None
    } else {
        Some(a.modpow(&(p - 2u32), p))
    }
}
pub fn pow_mod(a: &BigUint, e: &BigUint, p: &BigUint) -> BigUint {
    // 0^0 = 1 by convention of the library's square-and-multiply (res starts at one)
    a.modpow(e, p)
}
/// Euler criterion: is `a` a non-zero square mod the odd prime p
pub fn is_qr(a: &BigUint, p: &BigUint) -> bool {
    let a = a % p;
    if a.is_zero() {
        return false;
    }
    a.modpow(&((p - 1u32) >> 1), p).is_one()
}

pub fn hexs(v: &BigUint) -> String {
    format!("{:x}", v)
}

/// square root modulo a prime p = 5 (mod 8) (Atkin); None for non-residues. Both q and r are 5 mod 8.
pub fn sqrt_mod_5mod8(a: &BigUint, p: &BigUint) -> Option<BigUint> {
    let a = a % p;
    if a.is_zero() {
        return Some(a);
    }
    if !is_qr(&a, p) {
        return None;
    }
    debug_assert!((p % 8u32) == BigUint::from(5u32));
    let two_a = (&a * 2u32) % p;
    let v = two_a.modpow(&((p - 5u32) >> 3), p);
    let i = (&two_a * &v % p) * &v % p;
    let x = (&a * &v % p) * ((i + p - 1u32) % p) % p;
    if (&x * &x) % p == a {
        Some(x)
    } else {
        None
    }
}
