//! Oracle self-test: runs at the start of every check. A failure here is an infrastructure problem
//! (exit 2), never a violation of the library.
use crate::rf::{self, Fld, F, P12, R2};
use crate::src::{hex, unhex};
use crate::zp;
use num_bigint::BigUint;
use num_traits::{One, Zero};

/// SM9 standard (GM/T 0044, part 5, also quoted in the repository README / tests):
/// g = e(P1, [ks]P2) with ks = 0130E7...C5F4, in the standard's coefficient order.
pub const KS_HEX: &str = "000130E78459D78545CB54C587E02CF480CE0B66340F319F348A1D5B1F2DC5F4";
pub const KAT_G: &str = "\
4E378FB5561CD0668F906B731AC58FEE25738EDF09CADC7A29C0ABC0177AEA6D\
28B3404A61908F5D6198815C99AF1990C8AF38655930058C28C21BB539CE0000\
38BFFE40A22D529A0C66124B2C308DAC9229912656F62B4FACFCED408E02380F\
A01F2C8BEE81769609462C69C96AA923FD863E209D3CE26DD889B55E2E3873DB\
67E0E0C2EED7A6993DCE28FE9AA2EF56834307860839677F96685F2B44D0911F\
5A1AE172102EFD95DF7338DBC577C66D8D6C15E0A0158C7507228EFB078F42A6\
1604A3FCFA9783E667CE9FCB1062C2A5C6685C316DDA62DE0548BAA6BA30038B\
93634F44FA13AF76169F3CC8FBEA880ADAFF8475D5FD28A75DEB83C44362B439\
B3129A75D31D17194675A1BC56947920898FBF390A5BF5D931CE6CBB3340F66D\
4C744E69C4A2E1C8ED72F796D151A17CE2325B943260FC460B9F73CB57C9014B\
84B87422330D7936EABA1109FA5A7A7181EE16F2438B0AEB2F38FD5F7554E57A\
AAB9F06A4EEBA4323A7833DB202E4E35639D93FA3305AF73F0F071D7D284FCFB";
/// w = g^r with r = 033C86...1CBE
pub const KAT_R_HEX: &str = "00033C8616B06704813203DFD00965022ED15975C662337AED648835DC4B1CBE";
pub const KAT_W: &str = "\
81377B8FDBC2839B4FA2D0E0F8AA6853BBBE9E9C4099608F8612C6078ACD7563\
815AEBA217AD502DA0F48704CC73CABB3C06209BD87142E14CBD99E8BCA1680F\
30DADC5CD9E207AEE32209F6C3CA3EC0D800A1A42D33C73153DED47C70A39D2E\
8EAF5D179A1836B359A9D1D9BFC19F2EFCDB829328620962BD3FDF15F2567F58\
A543D25609AE943920679194ED30328BB33FD15660BDE485C6B79A7B32B01398\
3F012DB04BA59FE88DB889321CC2373D4C0C35E84F7AB1FF33679BCA575D6765\
4F8624EB435B838CCA77B2D0347E65D5E46964412A096F4150D8C5EDE5440DDF\
0656FCB663D24731E80292188A2471B8B68AA993899268499D23C89755A1A897\
44643CEAD40F0965F28E1CD2895C3D118E4F65C9A0E3E741B6DD52C0EE2D25F5\
898D60848026B7EFB8FCC1B2442ECF0795F8A81CEE99A6248F294C82C90D26BD\
6A814AAF475F128AEF43A128E37F80154AE6CB92CAD7D1501BAE30F750B3A9BD\
1F96B08E9799736391131470 5BFB9A9DBB97F75553EC90FBB2DDAE53C8F68E42";

fn xs(seed: &mut u64) -> u64 {
    // fixed xorshift for self-test operands only (not part of any property)
    *seed ^= *seed << 13;
    *seed ^= *seed >> 7;
    *seed ^= *seed << 17;
    *seed
}
fn rnd_big(seed: &mut u64) -> BigUint {
    let mut b = vec![];
    for _ in 0..4 {
        b.extend_from_slice(&xs(seed).to_be_bytes());
    }
    BigUint::from_bytes_be(&b)
}

pub fn run(full: bool) -> Result<(), String> {
    let q = zp::q();
    let r = zp::r();
    let mut seed = 0x1234_5678_9abc_def1u64;
    // 1. rf field ops agree with zp on boundary and random operands
    let mut ops: Vec<BigUint> = vec![
        BigUint::zero(),
        BigUint::one(),
        BigUint::from(2u32),
        q - 1u32,
        q - 2u32,
        (q - 1u32) >> 1,
        (q + 1u32) >> 1,
        &zp::c().two256 - q,
        BigUint::one() << 255,
    ];
    let n = if full { 2000 } else { 200 };
    for _ in 0..n {
        ops.push(rnd_big(&mut seed) % q);
    }
    for i in 0..ops.len() {
        let a = &ops[i];
        let b = &ops[(i * 7 + 3) % ops.len()];
        let (fa, fb) = (rf::f_from_big(a), rf::f_from_big(b));
        if rf::f_to_big(&fa.mul(&fb)) != zp::mul_mod(a, b, q) {
            return Err(format!("rf mul != zp mul for {:x} {:x}", a, b));
        }
        if rf::f_to_big(&fa.add(&fb)) != zp::add_mod(a, b, q) {
            return Err("rf add != zp add".into());
        }
        if rf::f_to_big(&fa.sub(&fb)) != zp::sub_mod(a, b, q) {
            return Err("rf sub != zp sub".into());
        }
        match (fa.inv(), zp::inv_mod(a, q)) {
            (None, None) => {}
            (Some(x), Some(y)) if rf::f_to_big(&x) == y => {}
            _ => return Err("rf inv != zp inv".into()),
        }
    }
    // 2. generators on their curves, of order r
    let (g1, g2) = (rf::g1(), rf::g2());
    if !rf::on_curve(&g1, &rf::b1()) || !rf::on_curve(&g2, &rf::b2()) {
        return Err("generators not on curve in the reference".into());
    }
    if rf::aff_mul(&g1, r).is_some() || rf::aff_mul(&g2, r).is_some() {
        return Err("r*P != O in the reference".into());
    }
    if rf::g1_mul(&(r - 1u32)) != rf::aff_neg(&g1) || rf::g2_mul(&(r - 1u32)) != rf::aff_neg(&g2) {
        return Err("table scalar multiplication inconsistent".into());
    }
    let k = rnd_big(&mut seed) % r;
    if rf::g1_mul(&k) != rf::aff_mul(&g1, &k) || rf::g2_mul(&k) != rf::aff_mul(&g2, &k) {
        return Err("table scalar multiplication != double-and-add".into());
    }
    // 3. Fq2: u^2 = -2, sqrt, squareness criteria agree
    let u = R2::new(F::zero(), F::one());
    if u.mul(&u) != R2::new(-F::from(2u64), F::zero()) {
        return Err("u^2 != -2".into());
    }
    for _ in 0..(if full { 40 } else { 6 }) {
        let x = R2::new(rf::f_from_big(&rnd_big(&mut seed)), rf::f_from_big(&rnd_big(&mut seed)));
        if x.is_square() != x.is_square_norm() {
            return Err("Fq2 squareness criteria disagree".into());
        }
        let sq = x.mul(&x);
        match sq.sqrt() {
            Some(s) if s.mul(&s) == sq => {}
            _ => return Err("reference Fq2 sqrt failed on a square".into()),
        }
        if let Some(i) = x.inv() {
            if i.mul(&x) != R2::one() {
                return Err("R2 inverse".into());
            }
        }
    }
    // 4. F_q^12: inverse, Frobenius by powering == by images, w^12 = -2
    let w = P12::w();
    let mut w12 = P12::one();
    for _ in 0..12 {
        w12 = w12.mul(&w);
    }
    if w12 != P12::from_f(-F::from(2u64)) {
        return Err("w^12 != -2".into());
    }
    let mut c = [F::zero(); 12];
    for ci in c.iter_mut() {
        *ci = rf::f_from_big(&rnd_big(&mut seed));
    }
    let x = P12(c);
    if x.inv().map(|i| i.mul(&x)) != Some(P12::one()) {
        return Err("P12 inverse".into());
    }
    for k in [1u32, 2, 3, 6] {
        if full || k == 1 {
            if x.frob_pow(k) != x.frob_img(k) {
                return Err(format!("Frobenius^{} by powering != by images of w", k));
            }
        }
    }
    if P12::from_sm9_bytes(&x.to_sm9_bytes()) != Some(x) {
        return Err("P12 byte round-trip".into());
    }
    // 5. the reference pairing reproduces the published vectors
    let ks = zp::hexn(KS_HEX);
    let pub_s = rf::g2_mul(&ks);
    let g = rf::pairing(&g1, &pub_s);
    let kat_g = unhex(&KAT_G.replace(' ', "")).unwrap();
    if g.to_sm9_bytes().to_vec() != kat_g {
        return Err(format!("reference pairing != published g: got {}", hex(&g.to_sm9_bytes()[..32])));
    }
    let rr = zp::hexn(KAT_R_HEX);
    let wv = g.pow(&rr);
    let kat_w = unhex(&KAT_W.replace(' ', "")).unwrap();
    if wv.to_sm9_bytes().to_vec() != kat_w {
        return Err("reference g^r != published w".into());
    }
    if g.pow(r) != P12::one() {
        return Err("published g does not have order dividing r in the reference".into());
    }
    // 6. bilinear in the reference
    let rounds = if full { 3 } else { 1 };
    for _ in 0..rounds {
        let a = rnd_big(&mut seed) % r;
        let b = rnd_big(&mut seed) % r;
        let lhs = rf::pairing(&rf::g1_mul(&a), &rf::g2_mul(&b));
        let base = rf::pairing(&g1, &g2);
        if lhs != base.pow(&((&a * &b) % r)) {
            return Err("reference pairing not bilinear".into());
        }
    }
    Ok(())
}
