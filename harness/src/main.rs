use serde_json::{json, Value};
use sm9verif::runner::{self, Ctx, Tier};
use sm9verif::{props, selftest, src};
use std::io::Write;
use std::process::exit;

fn usage() -> ! {
    eprintln!("usage: sm9check run <ID> <quick|thorough> [--child] | replay <file> | replay-genome <ID> <hex> | selftest | list");
    exit(2)
}

fn profile_name() -> &'static str {
    if option_env!("SM9VERIF_VARIANT") == Some("native") {
        "native"
    } else if cfg!(debug_assertions) {
        "dbg"
    } else {
        "release"
    }
}

fn main() {
    let args: Vec<String> = std::env::args().collect();
    if args.len() < 2 {
        usage();
    }
    match args[1].as_str() {
        "list" => {
            for d in props::all() {
                println!("{}", d.id);
            }
        }
        "selftest" => match selftest::run(true) {
            Ok(()) => println!("selftest ok"),
            Err(e) => {
                println!("INCONCLUSIVE: oracle self-test failed: {}", e);
                exit(2)
            }
        },
        "run" => {
            if args.len() < 4 {
                usage();
            }
            let tier = match args[3].as_str() {
                "quick" => Tier::Quick,
                "thorough" => Tier::Thorough,
                _ => usage(),
            };
            let child = args.iter().any(|a| a == "--child");
            exit(run(&args[2], tier, child));
        }
        "replay" => {
            if args.len() < 3 {
                usage();
            }
            exit(replay_file(&args[2]));
        }
        "replay-genome" => {
            if args.len() < 4 {
                usage();
            }
            let g = src::unhex(&args[3]).unwrap_or_else(|| usage());
            exit(replay(&args[2], &g, "<cmdline>"));
        }
        "replay-fuzz" => {
            // re-execute a libFuzzer artifact through this (release) build: map target bytes -> (property, genome)
            if args.len() < 4 {
                usage();
            }
            let data = std::fs::read(&args[3]).unwrap_or_default();
            let (id, g): (&str, Vec<u8>) = match args[2].as_str() {
                "decoders" => {
                    if data.is_empty() {
                        exit(0);
                    }
                    let d = (data[0] % 6) as usize;
                    let body = &data[1..];
                    let mut g = vec![0xFF, ((d * 256usize).div_ceil(6)) as u8];
                    g.extend_from_slice(&(body.len().min(300) as u16).to_be_bytes());
                    g.extend_from_slice(&body[..body.len().min(300)]);
                    ("C08", g)
                }
                "fieldconv" => ("C13", data),
                "fieldops" => {
                    if data.is_empty() {
                        exit(0);
                    }
                    (["C06", "C07", "C12", "C14"][(data[0] & 3) as usize], data[1..].to_vec())
                }
                "program" => ("C16", data),
                "tower" => ("C17", data),
                "profile" => ("C18", data),
                _ => usage(),
            };
            // write a regular replay file so that `run.sh replay` works on it
            let path = format!("{}.replay.json", args[3]);
            let v = json!({"property": id, "genome": src::hex(&g), "origin": format!("libFuzzer artifact {} of target {}", args[3], args[2])});
            let _ = std::fs::write(&path, serde_json::to_string_pretty(&v).unwrap());
            exit(replay(id, &g, &path));
        }
        "fuzz-seeds" => {
            if args.len() < 4 {
                usage();
            }
            let seeds = sm9verif::fuzzglue::seeds(&args[2]);
            std::fs::create_dir_all(&args[3]).unwrap();
            for (i, sd) in seeds.iter().enumerate() {
                std::fs::write(format!("{}/seed-{:04}", args[3], i), sd).unwrap();
            }
            println!("{} seeds written to {}", seeds.len(), args[3]);
        }
        "serve" => {
            sm9verif::props::c18::serve();
        }
        _ => usage(),
    }
}

fn replay_file(path: &str) -> i32 {
    let txt = match std::fs::read_to_string(path) {
        Ok(t) => t,
        Err(e) => {
            println!("INCONCLUSIVE: cannot read {}: {}", path, e);
            return 2;
        }
    };
    let v: Value = match serde_json::from_str(&txt) {
        Ok(v) => v,
        Err(e) => {
            println!("INCONCLUSIVE: bad replay file: {}", e);
            return 2;
        }
    };
    let id = v["property"].as_str().unwrap_or("");
    let g = v["genome"].as_str().and_then(src::unhex).unwrap_or_default();
    replay(id, &g, path)
}

fn replay(id: &str, g: &[u8], path: &str) -> i32 {
    let def = match props::find(id) {
        Some(d) => d,
        None => {
            println!("INCONCLUSIVE: unknown property {}", id);
            return 2;
        }
    };
    runner::silence_panics();
    let ctx = Ctx { want_desc: true, tier: Tier::Quick, fuzz: false };
    match runner::guarded(def.check, g, &ctx) {
        Ok(info) => {
            println!("replay {} [{}]: property holds on this case", def.id, profile_name());
            if let Some(d) = info.desc {
                println!("case: {}", d);
            }
            0
        }
        Err(f) => {
            println!("replay {} [{}]: FAILS  signature={}  {}", def.id, profile_name(), f.sig, f.msg);
            println!("VIOLATION property={} replay={}", def.id, path);
            1
        }
    }
}

fn run(id: &str, tier: Tier, child: bool) -> i32 {
    let def = match props::find(id) {
        Some(d) => d,
        None => {
            println!("INCONCLUSIVE: unknown property {}", id);
            return 2;
        }
    };
    let seed: u64 = std::env::var("VERIF_SEED").ok().and_then(|s| s.trim().parse::<i128>().ok()).map(|v| v as u64).unwrap_or(1);
    let cases_override = std::env::var("VERIF_CASES").ok().and_then(|s| s.parse().ok());
    // wall-clock watchdog: a hang is inconclusive, never a pass and never a violation
    let limit_s: u64 = std::env::var("VERIF_WATCHDOG_S").ok().and_then(|s| s.parse().ok()).unwrap_or(match tier {
        Tier::Quick => 900,
        Tier::Thorough => 6 * 3600,
    });
    let idc = def.id.to_string();
    let case_limit_s: u64 = std::env::var("VERIF_CASE_LIMIT_S").ok().and_then(|s| s.parse().ok()).unwrap_or(120);
    std::thread::spawn(move || {
        let t0 = std::time::Instant::now();
        loop {
            std::thread::sleep(std::time::Duration::from_secs(2));
            if let Some(g) = runner::overdue_case(std::time::Duration::from_secs(case_limit_s)) {
                let f = runner::Found {
                    genome: g,
                    failure: runner::Failure::new("watchdog|case-timeout", format!("a single case ran for more than {} s (typical: micro- to milliseconds): possible non-termination", case_limit_s)),
                    desc: None,
                    origin: "per-case watchdog".into(),
                };
                let path = runner::write_replay(&format!("{}-hang", idc), &f);
                println!("INCONCLUSIVE: watchdog: a case of {} exceeded {} s; the in-flight case was saved to {} (replaying it may hang as well)", idc, case_limit_s, path);
                let _ = std::io::stdout().flush();
                exit(2);
            }
            if t0.elapsed().as_secs() > limit_s {
                println!("INCONCLUSIVE: watchdog: {} still running after {} s", idc, limit_s);
                let _ = std::io::stdout().flush();
                exit(2);
            }
        }
    });
    if let Err(e) = selftest::run(false) {
        println!("INCONCLUSIVE: oracle self-test failed: {}", e);
        return 2;
    }
    if def.id == "C18" && !child && !cfg!(debug_assertions) {
        let exe = std::env::current_exe().unwrap();
        let dbg = exe.parent().unwrap().parent().unwrap().join("dbg").join("sm9check");
        if !dbg.exists() && std::env::var("SM9CHECK_DBG").is_err() {
            println!("INCONCLUSIVE: dbg-profile binary {} missing", dbg.display());
            return 2;
        }
    }
    let t_total = std::time::Instant::now();
    let out = runner::run_prop(&def, tier, seed, cases_override);

    // further build configurations of the same library sources, same check, same seed:
    //  - dbg (debug assertions + overflow checks) for the properties that ask for it,
    //  - native (release, `-C target-cpu=native`): code selected by `cfg(target_feature = ..)` is only compiled there.
    let mut extra = json!({"profile": profile_name()});
    let mut dbg_violation: Option<String> = None;
    let exe = std::env::current_exe().unwrap();
    let hdir = exe.parent().unwrap().parent().unwrap().parent().unwrap().to_path_buf();
    let mut variants: Vec<(&str, std::path::PathBuf, Option<u32>)> = vec![];
    if def.also_dbg {
        variants.push(("dbg_profile", hdir.join("target").join("dbg").join("sm9check"), cases_override));
    }
    let native = hdir.join("target-native").join("release").join("sm9check");
    if std::env::var("VERIF_NATIVE").map(|v| v != "0").unwrap_or(true) && native.exists() && def.id != "C18" {
        let total = cases_override.unwrap_or(match tier {
            Tier::Quick => def.quick_cases,
            Tier::Thorough => def.thorough_cases,
        });
        variants.push(("native_profile", native, Some((total / 4).max(64))));
    }
    for (label, bin, cases) in variants {
        if child || out.found.is_some() || dbg_violation.is_some() {
            break;
        }
        if !bin.exists() {
            println!("INCONCLUSIVE: {} binary {} missing", label, bin.display());
            return 2;
        }
        let mut cmd = std::process::Command::new(&bin);
        cmd.args(["run", def.id, tier.name(), "--child"]).env("VERIF_SEED", seed.to_string());
        if let Some(n) = cases {
            cmd.env("VERIF_CASES", n.to_string());
        }
        match cmd.output() {
            Ok(o) => {
                let txt = String::from_utf8_lossy(&o.stdout).to_string();
                let mut summary = None;
                for l in txt.lines() {
                    if let Some(rest) = l.strip_prefix("SUMMARY ") {
                        summary = serde_json::from_str::<Value>(rest).ok();
                    }
                    if l.starts_with("VIOLATION ") {
                        dbg_violation = Some(format!("(found by the {} run)\n{}", label, txt.lines().filter(|l| !l.starts_with("SUMMARY ")).collect::<Vec<_>>().join("\n")));
                    }
                }
                match (o.status.code(), summary) {
                    (Some(0), Some(sv)) | (Some(1), Some(sv)) => {
                        extra[label] = sv;
                    }
                    _ => {
                        println!("INCONCLUSIVE: {} child failed (status {:?}):\n{}", label, o.status.code(), txt);
                        return 2;
                    }
                }
            }
            Err(e) => {
                println!("INCONCLUSIVE: cannot run {} child: {}", label, e);
                return 2;
            }
        }
    }

    let c = &out.counters;
    if child {
        let classes: serde_json::Map<String, Value> = c.classes.iter().map(|(k, v)| (k.clone(), json!(v))).collect();
        let sv = json!({"profile": profile_name(), "evaluations": c.evaluations, "distinct_nontrivial": c.distinct.len(), "classes": classes, "violations": if out.found.is_some() {1} else {0}, "wall_s": out.wall_s,
            "target_features": {"bmi2": cfg!(target_feature = "bmi2"), "adx": cfg!(target_feature = "adx"), "avx2": cfg!(target_feature = "avx2"), "avx512f": cfg!(target_feature = "avx512f")}});
        if let Some(f) = &out.found {
            let path = runner::write_replay(&format!("{}-{}", def.id, profile_name()), f);
            if f.failure.sig.starts_with("harness|") || f.failure.sig.starts_with("oracle|") {
                println!("INCONCLUSIVE: [{}] {} [{}] (case saved to {})", profile_name(), f.failure.msg, f.failure.sig, path);
                return 2;
            }
            println!("[{}] {}: {}", profile_name(), f.failure.sig, f.failure.msg);
            println!("VIOLATION property={} replay={}", def.id, path);
        }
        println!("SUMMARY {}", sv);
        return if out.found.is_some() { 1 } else { 0 };
    }

    let mut ev = runner::evidence_json(&def, tier, seed, &out, extra);
    if dbg_violation.is_some() {
        ev["violations"] = json!(1);
    }
    ev["wall_s"] = json!(t_total.elapsed().as_secs_f64());
    // VERIF_EVIDENCE_DIR is only used by the mutant-trial tooling so that trial runs do not overwrite real evidence
    let evdir = std::env::var("VERIF_EVIDENCE_DIR").unwrap_or_else(|_| format!("{}/evidence", runner::VERIF_ROOT));
    let _ = std::fs::create_dir_all(&evdir);
    let evp = format!("{}/{}.json", evdir, def.id);
    if let Err(e) = std::fs::write(&evp, serde_json::to_string_pretty(&ev).unwrap()) {
        println!("INCONCLUSIVE: cannot write {}: {}", evp, e);
        return 2;
    }
    println!(
        "{} {} seed={} evaluations={} distinct_nontrivial={} enumerated={} corpus={} wall={:.1}s",
        def.id,
        tier.name(),
        seed,
        c.evaluations,
        c.distinct.len(),
        out.enumerated,
        out.corpus_replayed,
        out.wall_s
    );
    if let Some(f) = &out.found {
        let path = runner::write_replay(def.id, f);
        if f.failure.sig.starts_with("harness|") || f.failure.sig.starts_with("oracle|") {
            // the machinery (not the library) is in trouble: never a violation, never a pass
            println!("INCONCLUSIVE: {} [{}] (case saved to {})", f.failure.msg, f.failure.sig, path);
            return 2;
        }
        println!("failure: {}  [{}]", f.failure.msg, f.failure.sig);
        if let Some(d) = &f.desc {
            println!("case: {}", d);
        }
        println!("VIOLATION property={} replay={}", def.id, path);
        return 1;
    }
    if let Some(l) = dbg_violation {
        println!("{}", l);
        return 1;
    }
    for k in runner::load_known() {
        if k.status == "open" && k.property == def.id {
            println!("KNOWN-FINDING: property={} {} [{}] (hits this run: {})", def.id, k.description, k.signature, c.known_hits.get(&k.signature).copied().unwrap_or(0));
        }
    }
    let missing: Vec<&String> = def.required.iter().filter(|r| c.classes.get(*r).copied().unwrap_or(0) == 0).collect();
    if !missing.is_empty() {
        println!("INCONCLUSIVE: required input classes never generated: {:?}", missing);
        return 2;
    }
    if c.distinct.len() < 2 {
        println!("INCONCLUSIVE: fewer than 2 distinct non-trivial cases");
        return 2;
    }
    0
}
