//! Shared generator vocabulary: everything is *constructed* from the byte source, never filtered.
use crate::conv::*;
use crate::src::Src;
use crate::zp;
use num_bigint::BigUint;
use num_traits::{One, Zero};
use sm9_core::Fr;

#[derive(Clone, Copy, PartialEq, Eq, Debug)]
pub enum Md {
    Q,
    R,
}
impl Md {
    pub fn p(&self) -> &'static BigUint {
        match self {
            Md::Q => zp::q(),
            Md::R => zp::r(),
        }
    }
    pub fn rinv(&self) -> &'static BigUint {
        match self {
            Md::Q => &zp::c().rinv_q,
            Md::R => &zp::c().rinv_r,
        }
    }
    pub fn name(&self) -> &'static str {
        match self {
            Md::Q => "q",
            Md::R => "r",
        }
    }
}

fn limbs_to_big(l: &[u64; 4]) -> BigUint {
    let mut v = BigUint::zero();
    for i in (0..4).rev() {
        v = (v << 64) + BigUint::from(l[i]);
    }
    v
}
fn big_limb(p: &BigUint, i: usize) -> u64 {
    let d = p.to_u64_digits();
    d.get(i).copied().unwrap_or(0)
}

/// the Montgomery representative (a * 2^256 mod p) of a canonical value
pub fn mont_of(a: &BigUint, m: Md) -> BigUint {
    (a << 256) % m.p()
}

/// (-p^-1) mod 2^256
pub fn neg_inv_p(m: Md) -> &'static BigUint {
    use std::sync::OnceLock;
    static NQ: OnceLock<BigUint> = OnceLock::new();
    static NR: OnceLock<BigUint> = OnceLock::new();
    let cell = match m {
        Md::Q => &NQ,
        Md::R => &NR,
    };
    cell.get_or_init(|| {
        let p = m.p();
        let r = &zp::c().two256;
        // Newton: x <- x (2 - p x) mod 2^256 doubles the number of correct low bits
        let mut x = BigUint::one();
        for _ in 0..9 {
            let px = (p * &x) % r;
            let two_minus = (r + 2u32 - px) % r;
            x = (x * two_minus) % r;
        }
        assert!(((p * &x) % r).is_one());
        (r - x) % r
    })
}

/// Model of an (interleaved) Montgomery sum of products on *stored* operands:
/// u = (sum a_i b_i + m p) / 2^256, the value before the final conditional subtraction(s).
pub fn mont_pre_sum(terms: &[(BigUint, BigUint)], m: Md) -> BigUint {
    let p = m.p();
    let r = &zp::c().two256;
    let mut t = BigUint::zero();
    for (a, b) in terms {
        t += a * b;
    }
    let mm = ((&t % r) * neg_inv_p(m)) % r;
    (t + mm * p) >> 256
}

pub struct Felt {
    pub v: BigUint,
    pub class: &'static str,
}

pub const FELT_W: [u32; 8] = [3, 2, 4, 4, 2, 5, 2, 2];

/// canonical value < p, weighted towards canonical-side boundaries and stored-limb boundary patterns
pub fn felt(s: &mut Src, m: Md) -> Felt {
    let p = m.p();
    match s.weighted(&FELT_W) {
        7 => {
            let x = stored_pattern(s, m);
            Felt { v: (x * m.rinv()) % p, class: "stored-pattern" }
        }
        6 => {
            // top-heavy stored value: stored = p - 1 - d with d small / 64-bit / 128-bit (drives Montgomery carries)
            let d = match s.choose(3) {
                0 => BigUint::from(s.choose(17) as u32),
                1 => BigUint::from(s.u64()),
                _ => BigUint::from(s.u128()),
            };
            let x = p - 1u32 - d;
            Felt { v: (x * m.rinv()) % p, class: "limb-mont-top" }
        }
        0 => {
            // canonical boundary table
            let two256 = &zp::c().two256;
            let tbl: [BigUint; 15] = [
                BigUint::zero(),
                BigUint::one(),
                BigUint::from(2u32),
                BigUint::from(3u32),
                p - 1u32,
                p - 2u32,
                (p - 1u32) >> 1,
                (p + 1u32) >> 1,
                two256 - p,
                BigUint::one() << 255,
                (two256 - p) - 1u32,
                two256 % p,
                // values whose STORED limbs are the integers 1, 2, p-1 (a canonical/Montgomery mix-up turns them into 1, 2, -1)
                m.rinv().clone(),
                (m.rinv() * 2u32) % p,
                p - m.rinv(),
            ];
            Felt { v: tbl[s.choose(15)].clone() % p, class: "canon-boundary" }
        }
        1 => {
            // 2^i, 2^i +- 1, p - 2^i
            let i = s.choose(255) as u32;
            let b = BigUint::one() << i;
            let v = match s.choose(4) {
                0 => b,
                1 => b + 1u32,
                2 => (b + p - 1u32) % p,
                _ => (p - (b % p)) % p,
            };
            Felt { v: v % p, class: "pow2" }
        }
        2 | 3 => {
            // stored-limb pattern: each limb from a boundary table
            let mut l = [0u64; 4];
            for (i, li) in l.iter_mut().enumerate() {
                let pl = big_limb(p, i);
                *li = match s.choose(9) {
                    0 => 0,
                    1 => 1,
                    2 => 1u64 << 63,
                    3 => u64::MAX,
                    4 => u64::MAX - 1,
                    5 => pl,
                    6 => pl.wrapping_add(1),
                    7 => pl.wrapping_sub(1),
                    _ => s.u64(),
                };
            }
            let mut x = limbs_to_big(&l);
            if &x >= p {
                x -= p; // < 2^256 < 2p
            }
            if s.bool() {
                // use as the *Montgomery* representative: canonical = x * R^-1 mod p
                Felt { v: (x * m.rinv()) % p, class: "limb-mont" }
            } else {
                Felt { v: x, class: "limb-canon" }
            }
        }
        4 => Felt { v: BigUint::from(s.choose(17) as u32), class: "small" },
        _ => {
            let x = BigUint::from_bytes_be(&s.bytes(32)) % p;
            Felt { v: x, class: "uniform" }
        }
    }
}

/// non-zero constants that a canonical / Montgomery mix-up maps to special values: R^-1, 2R^-1, -R^-1 (stored limbs = 1, 2, p-1),
/// R, R^2 (canonical value = stored form of 1 resp. of R) and R^-2 (stored = R^-1)
pub fn mont_confusion(s: &mut Src, m: Md) -> BigUint {
    let p = m.p();
    let ri = m.rinv();
    let r1 = &zp::c().two256 % p;
    match s.choose(6) {
        0 => ri.clone(),
        1 => (ri * 2u32) % p,
        2 => p - ri,
        3 => r1,
        4 => (&r1 * &r1) % p,
        _ => (ri * ri) % p,
    }
}

/// four limbs, each from the boundary table {0, 1, 2^63, 2^64-1, 2^64-2, uniform}
pub fn limb_pattern(s: &mut Src) -> BigUint {
    let mut l = [0u64; 4];
    for li in l.iter_mut() {
        *li = match s.choose(8) {
            0 | 1 => 0,
            2 => 1,
            3 => 1u64 << 63,
            4 => u64::MAX,
            5 => u64::MAX - 1,
            _ => s.u64(),
        };
    }
    limbs_to_big(&l)
}

/// a stored (Montgomery-side) value < p aimed at the boundaries of the final reduction: small j, p - j, 2^256 - p + j
/// (pre-subtraction value 2^256 + j), or a limb pattern
pub fn stored_pattern(s: &mut Src, m: Md) -> BigUint {
    let p = m.p();
    let j = BigUint::from(s.choose16(401) as u32);
    match s.choose(10) {
        8 | 9 => {
            // thresholds of small multiples: floor(k*p/m) +- j for m in {2,3,4,5,8} - the values where 2a, 3a, 4a, 5a, 8a
            // cross a multiple of p (double / triple / mul-by-small-constant with a single quotient estimate)
            let m = [2u32, 3, 4, 5, 8][s.choose(5)];
            let k = 1 + (s.choose(8) as u32) % (m - 1).max(1);
            let base = (p * k) / m;
            if s.bool() {
                (base + j) % p
            } else {
                (base + p - (j % p)) % p
            }
        }
        5 => {
            // a halved or doubled limb pattern: (B + p)/2 for odd B, B/2 for even B, 2B mod p
            // (binary-Euclid inversion and div2 produce exactly such values from their predecessors)
            let mut b = limb_pattern(s);
            while &b >= p {
                b -= p;
            }
            match s.choose(3) {
                0 => {
                    if b.bit(0) {
                        (b + p) >> 1u32
                    } else {
                        b >> 1u32
                    }
                }
                1 => (b << 1u32) % p,
                _ => {
                    let b2 = if b.bit(0) { (b + p) >> 1u32 } else { b >> 1u32 };
                    if b2.bit(0) {
                        (b2 + p) >> 1u32
                    } else {
                        b2 >> 1u32
                    }
                }
            }
        }
        6 | 7 => {
            // low half congruent to a small rational multiple c/d of p (mod 2^128), high half arbitrary: makes the
            // operands of the first subtract-and-halve steps of a binary gcd agree in their low limbs
            let c = BigUint::from(1 + s.choose(5) as u32);
            let d = BigUint::from((2 * s.choose(4) + 1) as u32); // odd: invertible mod 2^128
            let m128 = BigUint::one() << 128;
            let dinv = inv_mod_2_256(&d) % &m128;
            let low = ((p % &m128) * c % &m128) * dinv % &m128;
            let high = BigUint::from(s.u128());
            let mut x = (high << 128) + low;
            while &x >= p {
                x -= p;
            }
            x
        }
        0 => j % p,
        1 => (p - 1u32 - j) % p,
        2 => (&zp::c().two256 - p + j) % p,
        3 => ((&zp::c().two256 - p) + p - 1u32 - j) % p,
        _ => {
            let mut x = limb_pattern(s);
            while &x >= p {
                x -= p;
            }
            x
        }
    }
}

/// square root modulo 2^256 of c = 1 (mod 8), by bitwise lifting; None otherwise
pub fn sqrt_2adic_256(c: &BigUint) -> Option<BigUint> {
    if (c % 8u32) != BigUint::one() {
        return None;
    }
    let mut x = BigUint::one();
    // invariant: x^2 = c (mod 2^(k+1)) for k >= 2
    for k in 3..256u64 {
        let m = BigUint::one() << (k + 1);
        let d = (&m + (c % &m) - ((&x * &x) % &m)) % &m;
        if d.bit(k) {
            x += BigUint::one() << (k - 1);
        }
    }
    let two256 = &zp::c().two256;
    let x = x % two256;
    if (&x * &x) % two256 == c % two256 {
        Some(x)
    } else {
        None
    }
}

/// inverse of an odd number modulo 2^256 (Newton iteration)
pub fn inv_mod_2_256(a: &BigUint) -> BigUint {
    let r = &zp::c().two256;
    let mut x = BigUint::one();
    for _ in 0..9 {
        let ax = (a * &x) % r;
        let t = (r + 2u32 - ax) % r;
        x = (x * t) % r;
    }
    debug_assert!(((a * &x) % r).is_one());
    x
}

/// a pair with a chosen relation between the two canonical / stored values
pub fn felt_pair(s: &mut Src, m: Md) -> (Felt, Felt, &'static str) {
    let p = m.p();
    let a = felt(s, m);
    match s.weighted(&[8, 2, 2, 2, 2, 2, 2, 3, 3, 2, 3, 3]) {
        11 => {
            // square with chosen Montgomery quotient digits: stored a with a^2 = -m*p (mod 2^256) for a limb pattern m
            // (2-adic square root; exists iff -m*p = 1 mod 8, which is arranged through the low bits of m)
            let two256 = &zp::c().two256;
            let mut mq = limb_pattern(s);
            let mut tries = 0u32;
            loop {
                // fix the low three bits of m so that c = -m*p = 1 (mod 8): m = -p^-1 (mod 8)
                let pinv8 = inv_mod_2_256(p) % 8u32;
                let want = (BigUint::from(8u32) - pinv8) % 8u32;
                mq = ((&mq >> 3u32) << 3u32) + want;
                let c = (two256 - (&mq * p) % two256) % two256;
                if let Some(rt) = sqrt_2adic_256(&c) {
                    // four roots: +-rt, +-rt + 2^255; take the first one below p
                    let half = BigUint::one() << 255;
                    let cands = [rt.clone(), (two256 - &rt) % two256, (&rt + &half) % two256, (two256 - &rt + &half) % two256];
                    if let Some(sa) = cands.iter().find(|x| *x < p && !x.is_zero()) {
                        let av = (sa * m.rinv()) % p;
                        return (Felt { v: av.clone(), class: "derived" }, Felt { v: av, class: "derived" }, "square-quotient-target");
                    }
                }
                mq = (mq + (BigUint::from(0x9E3779B97F4A7C15u64) << 64)) % two256;
                tries += 1;
                if tries > 8 {
                    let b = Felt { v: a.v.clone(), class: a.class };
                    return (a, b, "equal");
                }
            }
        }
        10 => {
            // inverse-targeted: a = 1/c(t), so that the stored result of inverse(a) is the pattern t
            let t = stored_pattern(s, m);
            let ct = (&t * m.rinv()) % p;
            let av = zp::inv_mod(&ct, p).unwrap_or_else(BigUint::one);
            let b = felt(s, m);
            (Felt { v: av, class: "derived" }, b, "inverse-stored-target")
        }
        0 => {
            let b = felt(s, m);
            (a, b, "independent")
        }
        7 => {
            // result-targeted: b = t / a, so that the *stored* (Montgomery) product a*b is a boundary pattern t
            let t = stored_pattern(s, m);
            let av = if a.v.is_zero() { BigUint::one() } else { a.v.clone() };
            let ct = (&t * m.rinv()) % p; // canonical value whose stored representative is t
            let b = zp::mul_mod(&ct, &zp::inv_mod(&av, p).unwrap(), p);
            (Felt { v: av, class: a.class }, Felt { v: b, class: "derived" }, "product-stored-target")
        }
        8 => {
            // square-targeted: a = b = sqrt(c) with the stored value of c (or of the next residue above it) a boundary pattern
            let mut t = stored_pattern(s, m);
            let mut tries = 0;
            loop {
                let ct = (&t * m.rinv()) % p;
                if let Some(rt) = zp::sqrt_mod_5mod8(&ct, p) {
                    let rt = if s.bool() { rt } else { zp::neg_mod(&rt, p) };
                    return (Felt { v: rt.clone(), class: "derived" }, Felt { v: rt, class: "derived" }, "square-stored-target");
                }
                t = (t + 1u32) % p;
                tries += 1;
                if tries > 64 {
                    let b = Felt { v: a.v.clone(), class: a.class };
                    return (a, b, "equal");
                }
            }
        }
        9 => {
            // quotient-targeted: choose the Montgomery quotient m = T * (-p^-1) mod 2^256 (its limbs are the per-round
            // reduction digits) as a boundary pattern and derive the stored b from an odd stored a
            let two256 = &zp::c().two256;
            let mut sa = mont_of(&a.v, m);
            if !sa.bit(0) {
                sa += 1u32;
            }
            if &sa >= p {
                sa = BigUint::one();
            }
            let mut q_digits = limb_pattern(s);
            let sa_inv = inv_mod_2_256(&sa);
            let mut tries = 0;
            loop {
                // T = sa * sb must satisfy T = -m * p (mod 2^256)
                let want_low = (two256 - (&q_digits * p) % two256) % two256;
                let sb = (&want_low * &sa_inv) % two256;
                if &sb < p {
                    let av = (&sa * m.rinv()) % p;
                    let bv = (&sb * m.rinv()) % p;
                    return (Felt { v: av, class: "derived" }, Felt { v: bv, class: "derived" }, "quotient-digit-target");
                }
                // perturb the top digit and try again (sb is uniform-ish: succeeds with probability ~0.71 per try)
                q_digits = (q_digits + (BigUint::from(0x9E3779B97F4A7C15u64) << 192)) % two256;
                tries += 1;
                if tries > 16 {
                    let b = felt(s, m);
                    return (a, b, "independent");
                }
            }
        }
        1 => {
            let b = Felt { v: a.v.clone(), class: a.class };
            (a, b, "equal")
        }
        2 => {
            let b = Felt { v: zp::neg_mod(&a.v, p), class: a.class };
            (a, b, "negation")
        }
        3 => {
            let b = Felt { v: (&a.v + 1u32) % p, class: a.class };
            (a, b, "succ")
        }
        4 => {
            let b = Felt { v: (&a.v + p - 1u32) % p, class: a.class };
            (a, b, "pred")
        }
        5 => {
            // stored-limb complement: stored(b) = 2^256 - stored(a) when that is < p (sum of stored = 2^256)
            let ma = mont_of(&a.v, m);
            let comp = &zp::c().two256 - &ma;
            if !ma.is_zero() && &comp < p {
                let b = Felt { v: (comp * m.rinv()) % p, class: "limb-mont" };
                (a, b, "stored-sum-2^256")
            } else {
                // stored(b) = p - stored(a): stored sum exactly p
                let b = Felt { v: zp::neg_mod(&a.v, p), class: a.class };
                (a, b, "negation")
            }
        }
        _ => {
            let b = Felt { v: zp::inv_mod(&a.v, p).unwrap_or_else(BigUint::zero), class: a.class };
            (a, b, "inverse")
        }
    }
}

pub struct Scalar {
    pub k: BigUint,
    pub class: &'static str,
}

/// scalar in Z_r with the boundary classes named by C01/C05
pub fn scalar(s: &mut Src) -> Scalar {
    let r = zp::r();
    match s.weighted(&[4, 3, 3, 2, 2, 3, 5, 2, 2, 2]) {
        9 => {
            // scalars are Montgomery-stored field elements too: stored representative = boundary pattern
            // (e.g. stored limbs [1,0,0,0], i.e. the scalar 2^-256 mod r)
            let x = stored_pattern(s, Md::R);
            let x = if s.choose(4) == 0 { BigUint::one() } else { x };
            Scalar { k: (x * Md::R.rinv()) % r, class: "stored-pattern" }
        }
        8 => {
            // small integer combinations a + b*lambda^e of the order-3 endomorphism eigenvalue: scalars for which
            // intermediate multiples of P coincide with +-phi(P) (same or opposite y, different x)
            let l = lambda_r();
            let l = if s.bool() { l.clone() } else { (l * l) % r };
            let a = s.choose(9) as i64 - 4;
            let b = s.choose(9) as i64 - 4;
            let b = if b == 0 { 1 } else { b };
            let term = |c: i64, x: &BigUint| -> BigUint {
                let m = (BigUint::from(c.unsigned_abs()) * x) % r;
                if c < 0 {
                    (r - m) % r
                } else {
                    m
                }
            };
            let k = (term(a, &BigUint::one()) + term(b, &l)) % r;
            // optionally use it as a bit *prefix* of a longer scalar (the accumulator of a left-to-right
            // double-and-add passes through every prefix)
            let room = 255u64.saturating_sub(k.bits());
            if s.bool() && room > 0 {
                let sh = 1 + (s.choose(64) as u64 % room.min(64));
                let tail = BigUint::from(s.u64()) & ((BigUint::one() << sh) - 1u32);
                let k2 = (&k << sh) + tail;
                if &k2 < r {
                    return Scalar { k: k2, class: "endo-prefix" };
                }
            }
            Scalar { k, class: "endo-combo" }
        }
        0 => {
            let tbl: [BigUint; 9] = [
                BigUint::zero(),
                BigUint::one(),
                BigUint::from(2u32),
                BigUint::from(3u32),
                r - 1u32,
                r - 2u32,
                (r - 1u32) >> 1,
                (r + 1u32) >> 1,
                r - 3u32,
            ];
            Scalar { k: tbl[s.choose(9)].clone(), class: "boundary" }
        }
        1 => {
            let i = s.choose(255) as u32;
            let b = BigUint::one() << i;
            let k = match s.choose(4) {
                0 => b,
                1 => b + 1u32,
                2 => (b + r - 1u32) % r,
                _ => (r - (b % r)) % r,
            };
            Scalar { k: k % r, class: "pow2" }
        }
        2 => {
            // run-length encoded bit pattern: long runs of zeros / ones
            let mut v = BigUint::zero();
            let mut bit = s.bool();
            let mut n = 0u32;
            while n < 256 {
                let run = 1 + s.choose(96) as u32;
                for _ in 0..run.min(256 - n) {
                    v = (v << 1) + if bit { 1u32 } else { 0u32 };
                }
                n += run;
                bit = !bit;
            }
            Scalar { k: v % r, class: "runs" }
        }
        3 => {
            // Hamming weight <= 4
            let mut v = BigUint::zero();
            for _ in 0..(1 + s.choose(4)) {
                v |= BigUint::one() << (s.choose(254) as u32);
            }
            Scalar { k: v % r, class: "sparse" }
        }
        4 => {
            // Hamming weight >= 252 (within 256 bits), reduced
            let mut v = (BigUint::one() << 256) - 1u32;
            for _ in 0..s.choose(5) {
                let bit = BigUint::one() << (s.choose(256) as u32);
                if (&v & &bit) != BigUint::zero() {
                    v -= bit;
                }
            }
            Scalar { k: v % r, class: "dense" }
        }
        5 => Scalar { k: BigUint::from(s.choose(17) as u32), class: "small" },
        6 => Scalar { k: BigUint::from_bytes_be(&s.bytes(32)) % r, class: "uniform" },
        _ => Scalar { k: BigUint::from_bytes_be(&s.bytes(64)) % r, class: "uniform512" },
    }
}

pub fn scalar_nonzero(s: &mut Src) -> Scalar {
    let mut k = scalar(s);
    if k.k.is_zero() {
        k.k = BigUint::one() + BigUint::from(s.choose(5) as u32);
        k.class = "small";
    }
    k
}

pub fn fr_of(k: &BigUint) -> Fr {
    fr_of_big(k)
}

// ------------------------------------------------------------------------------------------ points
#[derive(Clone, Copy, PartialEq, Eq, Debug, Hash)]
pub enum Rep {
    Affine,
    LibJac,
    Rescaled,
    ZeroCanon,
    ZeroLeftover,
    ZeroArb,
}
impl Rep {
    pub fn name(&self) -> &'static str {
        match self {
            Rep::Affine => "affine",
            Rep::LibJac => "libjac",
            Rep::Rescaled => "rescaled",
            Rep::ZeroCanon => "zero-canon",
            Rep::ZeroLeftover => "zero-leftover",
            Rep::ZeroArb => "zero-arb",
        }
    }
    pub fn is_identity(&self) -> bool {
        matches!(self, Rep::ZeroCanon | Rep::ZeroLeftover | Rep::ZeroArb)
    }
}

/// a primitive cube root of unity mod r: k -> lambda*k is the curve endomorphism (x, y) -> (omega*x, y) of y^2 = x^3 + b
/// (same y, different x), on G1 and on the twist alike (which of lambda, lambda^2 belongs to which omega is irrelevant here)
pub fn lambda_r() -> &'static BigUint {
    use std::sync::OnceLock;
    static L: OnceLock<BigUint> = OnceLock::new();
    L.get_or_init(|| {
        let r = zp::r();
        let e = (r - 1u32) / 3u32;
        assert!(((r - 1u32) % 3u32).is_zero());
        let mut g = BigUint::from(2u32);
        loop {
            let l = g.modpow(&e, r);
            if !l.is_one() {
                assert!(((&l * &l + &l + 1u32) % r).is_zero());
                return l;
            }
            g += 1u32;
        }
    })
}

/// relation between the discrete logs of a pair
pub const RELATIONS: [&str; 9] = ["independent", "equal", "opposite", "identity-right", "identity-left", "doubled", "neighbour", "same-y-other-x", "opposite-y-other-x"];

pub fn related(s: &mut Src, rel: usize) -> (BigUint, BigUint, &'static str) {
    let r = zp::r();
    let rel = rel % RELATIONS.len();
    let a = scalar_nonzero(s).k;
    let (a, b) = match rel {
        0 => {
            let b = scalar_nonzero(s).k;
            (a, b)
        }
        1 => (a.clone(), a),
        2 => (a.clone(), zp::neg_mod(&a, r)),
        3 => (a, BigUint::zero()),
        4 => (BigUint::zero(), a),
        5 => (a.clone(), (&a * 2u32) % r),
        6 => (a.clone(), (&a + 1u32) % r),
        7 | 8 => {
            // B = +-phi(A) with phi the order-3 endomorphism: B has the same (resp. opposite) y as A and a different x
            let l = lambda_r();
            let l = if s.bool() { l.clone() } else { (l * l) % r };
            let b = (&a * l) % r;
            (a.clone(), if rel == 7 { b } else { zp::neg_mod(&b, r) })
        }
        _ => unreachable!(),
    };
    (a, b, RELATIONS[rel])
}
