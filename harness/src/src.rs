//! Byte source ("genome" reader). Every generated case is a pure function of a byte string:
//! proptest produces (and shrinks) the bytes, libFuzzer mutates them, and the decoders in
//! `gen.rs` / `props/*` map *every* byte string to a case inside the property's domain
//! (construction, not rejection). Exhausted input reads as zeros, so shorter / zeroed genomes
//! decode to the simplest members of each class, which is what makes byte-level shrinking useful.

pub struct Src<'a> {
    data: &'a [u8],
    pos: usize,
    explicit: bool,
}

impl<'a> Src<'a> {
    pub fn new(data: &'a [u8]) -> Self {
        Src { data, pos: 0, explicit: false }
    }
    /// explicit-mode flag used by decoders that accept directly specified operands (enumerated sub-spaces)
    pub fn set_explicit(&mut self, e: bool) {
        self.explicit = e;
    }
    pub fn peek_explicit(&self) -> bool {
        self.explicit
    }
    pub fn consumed(&self) -> usize {
        self.pos.min(self.data.len())
    }
    pub fn remaining(&self) -> usize {
        self.data.len().saturating_sub(self.pos)
    }
    pub fn u8(&mut self) -> u8 {
        let v = self.data.get(self.pos).copied().unwrap_or(0);
        self.pos += 1;
        v
    }
    pub fn bool(&mut self) -> bool {
        self.u8() & 1 == 1
    }
    pub fn u16(&mut self) -> u16 {
        let a = self.u8() as u16;
        let b = self.u8() as u16;
        (a << 8) | b
    }
    pub fn u32(&mut self) -> u32 {
        let a = self.u16() as u32;
        let b = self.u16() as u32;
        (a << 16) | b
    }
    pub fn u64(&mut self) -> u64 {
        let a = self.u32() as u64;
        let b = self.u32() as u64;
        (a << 32) | b
    }
    pub fn u128(&mut self) -> u128 {
        let a = self.u64() as u128;
        let b = self.u64() as u128;
        (a << 64) | b
    }
    /// Monotone map of one byte onto 0..n (n <= 256): smaller bytes give smaller indices.
    pub fn choose(&mut self, n: usize) -> usize {
        debug_assert!(n >= 1 && n <= 256);
        (self.u8() as usize * n) >> 8
    }
    /// Monotone map of two bytes onto 0..n (n <= 65536).
    pub fn choose16(&mut self, n: usize) -> usize {
        debug_assert!(n >= 1 && n <= 65536);
        (self.u16() as usize * n) >> 16
    }
    /// Weighted choice: returns the index i with probability w[i]/sum(w) (sum <= 256 recommended).
    pub fn weighted(&mut self, w: &[u32]) -> usize {
        let total: u32 = w.iter().sum();
        let x = ((self.u16() as u64 * total as u64) >> 16) as u32;
        let mut acc = 0;
        for (i, wi) in w.iter().enumerate() {
            acc += wi;
            if x < acc {
                return i;
            }
        }
        w.len() - 1
    }
    pub fn bytes(&mut self, n: usize) -> Vec<u8> {
        (0..n).map(|_| self.u8()).collect()
    }
    pub fn arr32(&mut self) -> [u8; 32] {
        let mut o = [0u8; 32];
        for b in o.iter_mut() {
            *b = self.u8();
        }
        o
    }
}

pub fn hex(b: &[u8]) -> String {
    let mut s = String::with_capacity(b.len() * 2);
    for x in b {
        s.push_str(&format!("{:02x}", x));
    }
    s
}

pub fn unhex(s: &str) -> Option<Vec<u8>> {
    let s = s.trim();
    if s.len() % 2 != 0 {
        return None;
    }
    let mut out = Vec::with_capacity(s.len() / 2);
    let b = s.as_bytes();
    for i in (0..b.len()).step_by(2) {
        let h = (b[i] as char).to_digit(16)?;
        let l = (b[i + 1] as char).to_digit(16)?;
        out.push((h * 16 + l) as u8);
    }
    Some(out)
}

/// FNV-1a 64 — a fixed hash (std's DefaultHasher is not guaranteed stable across versions).
pub fn fnv(b: &[u8]) -> u64 {
    let mut h: u64 = 0xcbf29ce484222325;
    for x in b {
        h ^= *x as u64;
        h = h.wrapping_mul(0x100000001b3);
    }
    h
}
