//! Oracle 2: textbook tower, curve law and R-ate pairing over ark-ff's generic `Fp256<MontBackend>`.
//! Written for obviousness, not speed. Shares no algorithm with sm9_core: F_q^12 is represented as
//! polynomials of degree < 12 in w (w^12 = -2, u = w^6, v = w^3) with schoolbook multiplication,
//! inversion is Gaussian elimination, Frobenius is literal powering, the pairing is the plain
//! binary Miller loop over 6t+2 with affine lines and a plain (q^12-1)/r exponentiation.
use crate::zp;
use ark_ff::{AdditiveGroup, BigInteger, Field, Fp256, MontBackend, MontConfig, PrimeField};
use num_bigint::BigUint;
use std::sync::OnceLock;

#[derive(MontConfig)]
#[modulus = "82434016654578246444830763105245969129603161266935169637912592173415460324733"]
#[generator = "2"]
pub struct FqConfig;
type Fp = Fp256<MontBackend<FqConfig, 4>>;

/// Reference base-field element: a thin newtype over ark-ff's generic Montgomery `Fp256`, so that only the
/// few operations below are in scope (no name clashes with the `Fld` trait).
#[derive(Clone, Copy, PartialEq, Eq, Debug)]
pub struct F(Fp);

impl std::ops::Add for F {
    type Output = F;
    fn add(self, o: F) -> F {
        F(self.0 + o.0)
    }
}
impl std::ops::Sub for F {
    type Output = F;
    fn sub(self, o: F) -> F {
        F(self.0 - o.0)
    }
}
impl std::ops::Mul for F {
    type Output = F;
    fn mul(self, o: F) -> F {
        F(self.0 * o.0)
    }
}
impl std::ops::Neg for F {
    type Output = F;
    fn neg(self) -> F {
        F(-self.0)
    }
}
impl std::ops::AddAssign for F {
    fn add_assign(&mut self, o: F) {
        self.0 += o.0
    }
}
impl std::ops::SubAssign for F {
    fn sub_assign(&mut self, o: F) {
        self.0 -= o.0
    }
}
impl std::ops::MulAssign for F {
    fn mul_assign(&mut self, o: F) {
        self.0 *= o.0
    }
}
impl From<u64> for F {
    fn from(v: u64) -> F {
        F(Fp::from(v))
    }
}
impl F {
    pub fn double(&self) -> F {
        F(self.0.double())
    }
    pub fn inverse(&self) -> Option<F> {
        self.0.inverse().map(F)
    }
}

pub fn f_from_be(b: &[u8]) -> F {
    F(Fp::from_be_bytes_mod_order(b))
}
pub fn f_to_be(x: &F) -> [u8; 32] {
    let v = x.0.into_bigint().to_bytes_be();
    let mut o = [0u8; 32];
    o.copy_from_slice(&v);
    o
}
pub fn f_from_big(v: &BigUint) -> F {
    f_from_be(&zp::be32(&(v % zp::q())))
}
pub fn f_to_big(x: &F) -> BigUint {
    BigUint::from_bytes_be(&f_to_be(x))
}
pub fn f_u64(v: u64) -> F {
    F::from(v)
}

/// Minimal field interface shared by F, R2 and P12 so the curve law is written once.
pub trait Fld: Clone + PartialEq + std::fmt::Debug {
    fn zero() -> Self;
    fn one() -> Self;
    fn is_zero(&self) -> bool;
    fn add(&self, o: &Self) -> Self;
    fn sub(&self, o: &Self) -> Self;
    fn mul(&self, o: &Self) -> Self;
    fn neg(&self) -> Self;
    fn inv(&self) -> Option<Self>;
    fn from_u64(v: u64) -> Self {
        let mut acc = Self::zero();
        let one = Self::one();
        // tiny constants only
        for _ in 0..v {
            acc = acc.add(&one);
        }
        acc
    }
    fn sqr(&self) -> Self {
        self.mul(self)
    }
    fn pow(&self, e: &BigUint) -> Self {
        let mut r = Self::one();
        for i in (0..e.bits()).rev() {
            r = r.mul(&r);
            if e.bit(i) {
                r = r.mul(self);
            }
        }
        r
    }
}

impl Fld for F {
    fn zero() -> Self {
        F(<Fp as AdditiveGroup>::ZERO)
    }
    fn one() -> Self {
        F(<Fp as Field>::ONE)
    }
    fn is_zero(&self) -> bool {
        self.0 == <Fp as AdditiveGroup>::ZERO
    }
    fn add(&self, o: &Self) -> Self {
        *self + *o
    }
    fn sub(&self, o: &Self) -> Self {
        *self - *o
    }
    fn mul(&self, o: &Self) -> Self {
        *self * *o
    }
    fn neg(&self) -> Self {
        -*self
    }
    fn inv(&self) -> Option<Self> {
        self.inverse()
    }
    fn from_u64(v: u64) -> Self {
        F::from(v)
    }
}

// ---------------------------------------------------------------- Fq2 = Fq[u]/(u^2+2)
#[derive(Clone, Copy, PartialEq, Eq, Debug)]
pub struct R2 {
    pub a: F, // real
    pub b: F, // imaginary (coefficient of u)
}

impl R2 {
    pub fn new(a: F, b: F) -> Self {
        R2 { a, b }
    }
    pub fn conj(&self) -> Self {
        R2 { a: self.a, b: -self.b }
    }
    pub fn norm(&self) -> F {
        // (a+bu)(a-bu) = a^2 - b^2 u^2 = a^2 + 2 b^2
        self.a * self.a + (self.b * self.b).double()
    }
    /// x is a square in Fq2 (0 counts as a square here) — by Euler's criterion in Fq2 itself
    pub fn is_square(&self) -> bool {
        if Fld::is_zero(self) {
            return true;
        }
        let q = zp::q();
        let e = (q * q - 1u32) >> 1;
        self.pow(&e) == R2::one()
    }
    /// the same through the norm criterion: x square in Fq2 <=> N(x) square in Fq
    pub fn is_square_norm(&self) -> bool {
        if Fld::is_zero(self) {
            return true;
        }
        let n = self.norm();
        let e = (zp::q() - 1u32) >> 1;
        n.pow(&e) == F::one()
    }
    /// Generic Tonelli–Shanks in Fq2 (q^2 - 1 = 2^3 * odd). Returns a root, verified by squaring.
    pub fn sqrt(&self) -> Option<R2> {
        if Fld::is_zero(self) {
            return Some(*self);
        }
        if !self.is_square() {
            return None;
        }
        let q = zp::q();
        let n = q * q - 1u32;
        let mut s = 0u32;
        let mut t = n.clone();
        while !t.bit(0) {
            t >>= 1;
            s += 1;
        }
        // a non-square of Fq2: search small elements 1 + k u (deterministic)
        static NS: OnceLock<R2> = OnceLock::new();
        let z = *NS.get_or_init(|| {
            let mut k = 1u64;
            loop {
                let c = R2::new(F::from(1u64), F::from(k));
                if !c.is_square() {
                    return c;
                }
                k += 1;
            }
        });
        let mut m = s;
        let mut c = z.pow(&t);
        let mut tt = self.pow(&t);
        let mut rr = self.pow(&((&t + 1u32) >> 1));
        while tt != R2::one() {
            // least i with tt^(2^i) = 1
            let mut i = 0u32;
            let mut x = tt;
            while x != R2::one() {
                x = x.mul(&x);
                i += 1;
                if i >= m {
                    return None; // cannot happen for squares
                }
            }
            let mut b = c;
            for _ in 0..(m - i - 1) {
                b = b.mul(&b);
            }
            m = i;
            c = b.mul(&b);
            tt = tt.mul(&c);
            rr = rr.mul(&b);
        }
        assert!(rr.mul(&rr) == *self, "reference sqrt self-check");
        Some(rr)
    }
}

impl R2 {
    /// a cube root in Fq2 (None for cubic non-residues). 9 does not divide q^2 - 1, so for m = (q^2-1)/3 the
    /// exponent e = 3^-1 mod m gives (c^e)^3 = c for every cubic residue c.
    pub fn cbrt(&self) -> Option<R2> {
        if Fld::is_zero(self) {
            return Some(*self);
        }
        static E: OnceLock<BigUint> = OnceLock::new();
        let e = E.get_or_init(|| {
            let q = zp::q();
            let m = (q * q - 1u32) / 3u32;
            // 3^-1 mod m by Euler is awkward (m not prime): use the extended Euclid on small numbers: find k with 1 + k*m = 0 mod 3
            let mm = (&m % 3u32).to_u64_digits().first().copied().unwrap_or(0);
            assert!(mm != 0, "9 | q^2-1");
            let k = if mm == 1 { 2u32 } else { 1u32 }; // 1 + k*m = 0 (mod 3)
            (BigUint::from(1u32) + &m * k) / 3u32
        });
        let r = self.pow(e);
        if r.mul(&r).mul(&r) == *self {
            Some(r)
        } else {
            None
        }
    }
}

impl Fld for R2 {
    fn zero() -> Self {
        R2 { a: F::zero(), b: F::zero() }
    }
    fn one() -> Self {
        R2 { a: F::one(), b: F::zero() }
    }
    fn is_zero(&self) -> bool {
        Fld::is_zero(&self.a) && Fld::is_zero(&self.b)
    }
    fn add(&self, o: &Self) -> Self {
        R2 { a: self.a + o.a, b: self.b + o.b }
    }
    fn sub(&self, o: &Self) -> Self {
        R2 { a: self.a - o.a, b: self.b - o.b }
    }
    fn mul(&self, o: &Self) -> Self {
        // (a + b u)(c + d u) = ac + bd u^2 + (ad + bc) u, u^2 = -2
        let ac = self.a * o.a;
        let bd = self.b * o.b;
        R2 { a: ac - bd.double(), b: self.a * o.b + self.b * o.a }
    }
    fn neg(&self) -> Self {
        R2 { a: -self.a, b: -self.b }
    }
    fn inv(&self) -> Option<Self> {
        let n = self.norm();
        let ni = n.inverse()?;
        Some(R2 { a: self.a * ni, b: -(self.b * ni) })
    }
}

// ---------------------------------------------------------------- F_q^12 as F_q[w]/(w^12+2)
#[derive(Clone, Copy, PartialEq, Eq, Debug)]
pub struct P12(pub [F; 12]);

impl P12 {
    pub fn from_f(x: F) -> Self {
        let mut c = [F::zero(); 12];
        c[0] = x;
        P12(c)
    }
    pub fn w() -> Self {
        let mut c = [F::zero(); 12];
        c[1] = F::one();
        P12(c)
    }
    pub fn monomial(c: F, deg: usize) -> Self {
        let mut a = [F::zero(); 12];
        a[deg] = c;
        P12(a)
    }
    /// embed x = a + b u of Fq2 (u = w^6)
    pub fn from_r2(x: &R2) -> Self {
        let mut c = [F::zero(); 12];
        c[0] = x.a;
        c[6] = x.b;
        P12(c)
    }
    /// Gaussian elimination on the 12x12 matrix of "multiply by self"
    pub fn inv_gauss(&self) -> Option<Self> {
        let mut m = [[F::zero(); 13]; 12];
        for j in 0..12 {
            let col = Fld::mul(self, &P12::monomial(F::one(), j));
            for i in 0..12 {
                m[i][j] = col.0[i];
            }
        }
        m[0][12] = F::one();
        for col in 0..12 {
            let piv = (col..12).find(|&r| !Fld::is_zero(&m[r][col]))?;
            m.swap(col, piv);
            let inv = m[col][col].inverse().unwrap();
            for k in col..13 {
                m[col][k] *= inv;
            }
            for r in 0..12 {
                if r != col && !Fld::is_zero(&m[r][col]) {
                    let f = m[r][col];
                    for k in col..13 {
                        let t = m[col][k] * f;
                        m[r][k] -= t;
                    }
                }
            }
        }
        let mut c = [F::zero(); 12];
        for i in 0..12 {
            c[i] = m[i][12];
        }
        Some(P12(c))
    }
    /// x -> x^(q^k) by literal powering
    pub fn frob_pow(&self, k: u32) -> Self {
        let e = zp::q().pow(k);
        self.pow(&e)
    }
    /// x -> x^(q^k) through the images of w: (sum c_i w^i)^(q^k) = sum c_i (w^(q^k))^i   (c_i in F_q)
    pub fn frob_img(&self, k: u32) -> Self {
        static IMG: OnceLock<Vec<P12>> = OnceLock::new();
        let img = IMG.get_or_init(|| (0..12u32).map(|k| P12::w().frob_pow(k)).collect());
        let wk = img[(k % 12) as usize];
        let mut acc = P12::zero();
        let mut p = P12::one();
        for i in 0..12 {
            let mut term = p;
            for c in term.0.iter_mut() {
                *c *= self.0[i];
            }
            acc = Fld::add(&acc, &term);
            p = Fld::mul(&p, &wk);
        }
        acc
    }
    /// SM9 384-byte order. Tower coefficient (k in Fq12/Fq4, j in Fq4/Fq2, i in Fq2/Fq) <-> w^(k+3j+6i);
    /// serialised c2|c1|c0, inside each the high part first.
    pub const ORDER: [usize; 12] = [11, 5, 8, 2, 10, 4, 7, 1, 9, 3, 6, 0];
    pub fn to_sm9_bytes(&self) -> [u8; 384] {
        let mut o = [0u8; 384];
        for (n, &d) in Self::ORDER.iter().enumerate() {
            o[n * 32..n * 32 + 32].copy_from_slice(&f_to_be(&self.0[d]));
        }
        o
    }
    /// parse 384 bytes; None if some 32-byte limb is >= q
    pub fn from_sm9_bytes(b: &[u8]) -> Option<Self> {
        if b.len() != 384 {
            return None;
        }
        let mut c = [F::zero(); 12];
        for (n, &d) in Self::ORDER.iter().enumerate() {
            let limb = &b[n * 32..n * 32 + 32];
            if &BigUint::from_bytes_be(limb) >= zp::q() {
                return None;
            }
            c[d] = f_from_be(limb);
        }
        Some(P12(c))
    }
}

impl Fld for P12 {
    fn zero() -> Self {
        P12([F::zero(); 12])
    }
    fn one() -> Self {
        P12::from_f(F::one())
    }
    fn is_zero(&self) -> bool {
        self.0.iter().all(|c| Fld::is_zero(c))
    }
    fn add(&self, o: &Self) -> Self {
        let mut c = self.0;
        for i in 0..12 {
            c[i] += o.0[i];
        }
        P12(c)
    }
    fn sub(&self, o: &Self) -> Self {
        let mut c = self.0;
        for i in 0..12 {
            c[i] -= o.0[i];
        }
        P12(c)
    }
    fn mul(&self, o: &Self) -> Self {
        let mut t = [F::zero(); 23];
        for i in 0..12 {
            if Fld::is_zero(&self.0[i]) {
                continue;
            }
            for j in 0..12 {
                t[i + j] += self.0[i] * o.0[j];
            }
        }
        let mut c = [F::zero(); 12];
        c[..12].copy_from_slice(&t[..12]);
        for i in 12..23 {
            c[i - 12] -= t[i].double(); // w^12 = -2
        }
        P12(c)
    }
    fn neg(&self) -> Self {
        let mut c = self.0;
        for x in c.iter_mut() {
            *x = -*x;
        }
        P12(c)
    }
    fn inv(&self) -> Option<Self> {
        self.inv_gauss()
    }
    fn from_u64(v: u64) -> Self {
        P12::from_f(F::from(v))
    }
}

// ---------------------------------------------------------------- affine curve law y^2 = x^3 + b (a = 0)
/// None = point at infinity
pub type Aff<T> = Option<(T, T)>;

pub fn on_curve<T: Fld>(p: &Aff<T>, b: &T) -> bool {
    match p {
        None => true,
        Some((x, y)) => y.sqr() == x.sqr().mul(x).add(b),
    }
}

pub fn aff_neg<T: Fld>(p: &Aff<T>) -> Aff<T> {
    p.as_ref().map(|(x, y)| (x.clone(), y.neg()))
}

/// textbook chord-and-tangent with explicit case analysis
pub fn aff_add<T: Fld>(p: &Aff<T>, q: &Aff<T>) -> Aff<T> {
    match (p, q) {
        (None, _) => q.clone(),
        (_, None) => p.clone(),
        (Some((x1, y1)), Some((x2, y2))) => {
            let lam = if x1 == x2 {
                if y1.add(y2).is_zero() {
                    return None; // P = -Q (covers y = 0 doubling too)
                }
                // tangent: 3 x^2 / 2 y
                let num = x1.sqr().mul(&T::from_u64(3));
                num.mul(&y1.add(y1).inv().expect("2y != 0"))
            } else {
                y2.sub(y1).mul(&x2.sub(x1).inv().expect("x2 != x1"))
            };
            let x3 = lam.sqr().sub(x1).sub(x2);
            let y3 = lam.mul(&x1.sub(&x3)).sub(y1);
            Some((x3, y3))
        }
    }
}

pub fn aff_sub<T: Fld>(p: &Aff<T>, q: &Aff<T>) -> Aff<T> {
    aff_add(p, &aff_neg(q))
}

/// left-to-right double-and-add, scalar of any size
pub fn aff_mul<T: Fld>(p: &Aff<T>, k: &BigUint) -> Aff<T> {
    let mut acc: Aff<T> = None;
    for i in (0..k.bits()).rev() {
        acc = aff_add(&acc, &acc);
        if k.bit(i) {
            acc = aff_add(&acc, p);
        }
    }
    acc
}

// ---------------------------------------------------------------- SM9 parameters (from the standard)
pub const P1X: &str = "93DE051D62BF718FF5ED0704487D01D6E1E4086909DC3280E8C4E4817C66DDDD";
pub const P1Y: &str = "21FE8DDA4F21E607631065125C395BBC1C1C00CBFA6024350C464CD70A3EA616";
pub const P2X1: &str = "85AEF3D078640C98597B6027B441A01FF1DD2C190F5E93C454806C11D8806141";
pub const P2X0: &str = "3722755292130B08D2AAB97FD34EC120EE265948D19C17ABF9B7213BAF82D65B";
pub const P2Y1: &str = "17509B092E845C1266BA0D262CBEE6ED0736A96FA347C8BD856DC76B84EBEB96";
pub const P2Y0: &str = "A7CF28D519BE3DA65F3170153D278FF247EFBA98A71A08116215BBA5C999A7C7";

pub fn b1() -> F {
    F::from(5u64)
}
/// twist coefficient 5u
pub fn b2() -> R2 {
    R2::new(F::zero(), F::from(5u64))
}
pub fn g1() -> Aff<F> {
    Some((f_from_big(&zp::hexn(P1X)), f_from_big(&zp::hexn(P1Y))))
}
pub fn g2() -> Aff<R2> {
    Some((
        R2::new(f_from_big(&zp::hexn(P2X0)), f_from_big(&zp::hexn(P2X1))),
        R2::new(f_from_big(&zp::hexn(P2Y0)), f_from_big(&zp::hexn(P2Y1))),
    ))
}

struct Tables {
    g1: Vec<Aff<F>>,  // 2^i * P1
    g2: Vec<Aff<R2>>, // 2^i * P2
}
fn tables() -> &'static Tables {
    static T: OnceLock<Tables> = OnceLock::new();
    T.get_or_init(|| {
        let mut a = g1();
        let mut b = g2();
        let mut t1 = Vec::with_capacity(256);
        let mut t2 = Vec::with_capacity(256);
        for _ in 0..256 {
            t1.push(a.clone());
            t2.push(b.clone());
            a = aff_add(&a, &a);
            b = aff_add(&b, &b);
        }
        Tables { g1: t1, g2: t2 }
    })
}
/// k * P1 for k < 2^256 via the doubling table (sum of 2^i P1 over set bits; affine additions only)
pub fn g1_mul(k: &BigUint) -> Aff<F> {
    let t = tables();
    let mut acc = None;
    for i in 0..k.bits().min(256) {
        if k.bit(i) {
            acc = aff_add(&acc, &t.g1[i as usize]);
        }
    }
    assert!(k.bits() <= 256);
    acc
}
pub fn g2_mul(k: &BigUint) -> Aff<R2> {
    let t = tables();
    let mut acc = None;
    for i in 0..k.bits().min(256) {
        if k.bit(i) {
            acc = aff_add(&acc, &t.g2[i as usize]);
        }
    }
    assert!(k.bits() <= 256);
    acc
}

// ---------------------------------------------------------------- the R-ate pairing, as the standard states it
/// line through a and b (tangent if equal, vertical if a = -b) evaluated at p
fn line(a: &(P12, P12), b: &(P12, P12), p: &(P12, P12)) -> P12 {
    let (x1, y1) = a;
    let (x2, y2) = b;
    let (xp, yp) = p;
    if x1 == x2 && y1.add(y2).is_zero() {
        return xp.sub(x1);
    }
    let lam = if x1 == x2 {
        x1.sqr().mul(&P12::from_u64(3)).mul(&y1.add(y1).inv().unwrap())
    } else {
        y2.sub(y1).mul(&x2.sub(x1).inv().unwrap())
    };
    yp.sub(y1).sub(&lam.mul(&xp.sub(x1)))
}

/// untwist psi(x', y') = (x'/w^2, y'/w^3) into E(F_q^12): y^2 = x^3 + 5
pub fn untwist(q: &(R2, R2)) -> (P12, P12) {
    static WI: OnceLock<(P12, P12)> = OnceLock::new();
    let (w2i, w3i) = WI.get_or_init(|| {
        let w = P12::w();
        let w2 = w.mul(&w);
        let w3 = w2.mul(&w);
        (w2.inv().unwrap(), w3.inv().unwrap())
    });
    (P12::from_r2(&q.0).mul(w2i), P12::from_r2(&q.1).mul(w3i))
}

/// Miller function value f_{6t+2,Q}(P) * l_{[6t+2]Q, pi(Q)}(P) * l_{[6t+2]Q+pi(Q), -pi^2(Q)}(P) (before final exponentiation)
pub fn miller(p: &(F, F), q: &(R2, R2)) -> P12 {
    let qq = untwist(q);
    let pp = (P12::from_f(p.0), P12::from_f(p.1));
    let five = P12::from_u64(5);
    assert!(qq.1.sqr() == qq.0.sqr().mul(&qq.0).add(&five), "untwisted Q not on E(Fq12)");
    assert!(pp.1.sqr() == pp.0.sqr().mul(&pp.0).add(&five), "P not on E");
    let n = &zp::c().loop_n;
    let mut f = P12::one();
    let mut t = qq;
    for i in (0..n.bits() - 1).rev() {
        f = f.sqr().mul(&line(&t, &t, &pp));
        t = aff_add(&Some(t), &Some(t)).unwrap();
        if n.bit(i) {
            f = f.mul(&line(&t, &qq, &pp));
            t = aff_add(&Some(t), &Some(qq)).unwrap();
        }
    }
    let q1 = (qq.0.frob_img(1), qq.1.frob_img(1));
    let q2 = (q1.0.frob_img(1), q1.1.frob_img(1));
    let nq2 = (q2.0, q2.1.neg());
    f = f.mul(&line(&t, &q1, &pp));
    t = aff_add(&Some(t), &Some(q1)).unwrap();
    f = f.mul(&line(&t, &nq2, &pp));
    f
}

pub fn final_exp(f: &P12) -> P12 {
    f.pow(&zp::c().final_exp)
}

/// e(P, Q) for affine non-identity P in G1, Q in G2 (identity -> one is handled by the callers via Aff)
pub fn pairing(p: &Aff<F>, q: &Aff<R2>) -> P12 {
    match (p, q) {
        (Some(p), Some(q)) => final_exp(&miller(p, q)),
        _ => P12::one(),
    }
}
