//! Glue for the libFuzzer targets in /verif/fuzz: one entry function, no global state in the tested code,
//! the semantic oracle (the property's `check`) runs inside the target.
use crate::runner::{guarded, load_known, Ctx, Tier};
use std::sync::OnceLock;

struct Glue {
    open: Vec<(String, String)>,
}
fn glue() -> &'static Glue {
    static G: OnceLock<Glue> = OnceLock::new();
    G.get_or_init(|| {
        crate::runner::silence_panics();
        Glue { open: load_known().into_iter().filter(|k| k.status == "open").map(|k| (k.property, k.signature)).collect() }
    })
}

/// decoders target: first byte selects the decoder, the rest is fed to it verbatim (explicit mode of C08)
pub fn run_decoders(data: &[u8]) {
    if data.is_empty() {
        return;
    }
    let d = (data[0] % 6) as usize;
    let body = &data[1..];
    let mut g = vec![0xFF, ((d * 256usize).div_ceil(6)) as u8];
    g.extend_from_slice(&(body.len().min(300) as u16).to_be_bytes());
    g.extend_from_slice(&body[..body.len().min(300)]);
    run("C08", &g);
}

pub fn run(id: &str, data: &[u8]) {
    let g = glue();
    let def = match crate::props::find(id) {
        Some(d) => d,
        None => return,
    };
    // the in-process part of C18 only (no child process inside a fuzz target)
    let ctx = Ctx { want_desc: false, tier: Tier::Thorough, fuzz: true };
    if let Err(f) = guarded(def.check, data, &ctx) {
        if f.sig.starts_with("harness|") || f.sig.starts_with("oracle|") {
            return;
        }
        if g.open.iter().any(|(p, s)| p == id && *s == f.sig) {
            return; // a listed open finding: tolerated so the campaign can look behind it
        }
        // restore the default hook so libFuzzer prints the message, then crash
        let _ = std::panic::take_hook();
        panic!("VIOLATION property={} signature={} :: {}", id, f.sig, f.msg);
    }
}

/// deterministic seed corpus for a fuzz target (golden valid inputs + a few structured genomes)
pub fn seeds(target: &str) -> Vec<Vec<u8>> {
    use crate::runner::Tier;
    let mut out: Vec<Vec<u8>> = vec![];
    let mut x = 0x9E3779B97F4A7C15u64;
    let mut rnd = |n: usize| -> Vec<u8> {
        (0..n)
            .map(|_| {
                x ^= x << 13;
                x ^= x >> 7;
                x ^= x << 17;
                (x >> 24) as u8
            })
            .collect()
    };
    let sample = |v: Vec<Vec<u8>>, n: usize| -> Vec<Vec<u8>> {
        let step = (v.len() / n.max(1)).max(1);
        v.into_iter().step_by(step).take(n).collect()
    };
    match target {
        "decoders" => {
            use crate::conv::*;
            use crate::rf;
            for i in 1..=6u32 {
                let k = (num_bigint::BigUint::from(0xABCDEF12345u64) * i).pow(3) % crate::zp::r();
                let p1 = rf::g1_mul(&k).unwrap();
                let p2 = rf::g2_mul(&k).unwrap();
                let encs: [Vec<u8>; 6] = [
                    enc_g1_raw(&p1),
                    with_prefix(4, &enc_g1_raw(&p1)),
                    enc_g1_compressed(&p1),
                    enc_g2_raw(&p2),
                    with_prefix(4, &enc_g2_raw(&p2)),
                    enc_g2_compressed(&p2),
                ];
                for (d, e) in encs.iter().enumerate() {
                    out.push(with_prefix(d as u8, e));
                }
            }
        }
        "fieldconv" => {
            let d = crate::props::find("C13").unwrap();
            out.extend(sample((d.enumerate.unwrap())(Tier::Quick), 300));
            for _ in 0..40 {
                out.push(rnd(d.genome_len));
            }
        }
        "fieldops" => {
            for (i, id) in ["C06", "C07", "C12", "C14"].iter().enumerate() {
                let d = crate::props::find(id).unwrap();
                for _ in 0..25 {
                    out.push(with_first(i as u8, rnd(d.genome_len.min(600))));
                }
            }
        }
        "program" => {
            let d = crate::props::find("C16").unwrap();
            out.extend(sample((d.enumerate.unwrap())(Tier::Quick), 400));
            for _ in 0..30 {
                out.push(rnd(d.genome_len));
            }
        }
        "tower" => {
            let d = crate::props::find("C17").unwrap();
            for _ in 0..120 {
                out.push(rnd(d.genome_len));
            }
        }
        "profile" => {
            let d = crate::props::find("C18").unwrap();
            for _ in 0..80 {
                out.push(rnd(d.genome_len));
            }
        }
        _ => {}
    }
    out
}

fn with_first(b: u8, mut v: Vec<u8>) -> Vec<u8> {
    v.insert(0, b);
    v
}
