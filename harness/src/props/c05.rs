//! C05 — scalar multiplication is the Z_r-module action on G1 and G2.
//! Oracle: independent left-to-right double-and-add over reference affine arithmetic starting from P's own
//! reference coordinates; consistency with (k*c mod r)*generator; metamorphic relations on library values.
use crate::gen::{fr_of, scalar};
use crate::grp::{desc_pt, point, Grp, Pt, GA, GB};
use crate::rf::{self, Aff};
use crate::runner::{Ctx, Failure, Info, Key, PropDef};
use crate::src::Src;
use crate::zp;
use crate::{ensure, fail};
use num_bigint::BigUint;
use num_traits::{One, Zero};
use serde_json::json;
use sm9_core::Group;

pub fn def() -> PropDef {
    let mut required = crate::runner::req(&["k:boundary", "k:pow2", "k:runs", "k:sparse", "k:dense", "k:small", "k:uniform", "k:uniform512", "k:endo-combo", "k:endo-prefix", "k:stored-pattern"]);
    for g in ["G1", "G2"] {
        for rep in ["affine", "libjac", "rescaled", "zero-canon", "zero-leftover", "zero-arb"] {
            required.push(format!("cell:{}|{}", g, rep));
        }
    }
    PropDef {
        id: "C05",
        check,
        genome_len: 500,
        quick_cases: 16_000,
        thorough_cases: 500_000,
        rule: "case = (group, P = c*generator in one of 6 representations incl. three identities, scalars k, a, b from {0,1,2,3,r-1,r-2,(r+-1)/2, 2^i, 2^i+-1, r-2^i, run-length patterns, Hamming weight <=4 / >=252, small, uniform 256/512-bit}); P*k and k*P are mapped to affine by the reference and compared with an independent double-and-add over affine arithmetic from P's coordinates; relations (a+b)P=aP+bP, (ab)P=a(bP), 0P=O, 1P=P, (r-1)P=-P, generator order exactly r; non-trivial = k not in {0,1} and (P not z=1 or k from a boundary class); distinct by (group, c, representation, k, a, b)",
        required,
        enumerate: None,
        enumerate_note: "",
        also_dbg: false,
        assumptions: super::TRUSTED,
        max_shrink_iters: 300,
    }
}

fn cmp<G: Grp>(got: &G::L, want: &Aff<G::B>, sig: &str, what: &str, p: &Pt<G>, k: &BigUint) -> Result<(), Failure> {
    let den = G::denotes(got);
    ensure!(
        got.is_zero() == want.is_none(),
        &format!("{}|identity-mismatch", sig),
        "{} {}: is_zero = {} but the k-fold sum is {} (P: c={:x} {} = {}, k={:x}, result {})",
        G::NAME, what, got.is_zero(), if want.is_none() { "O" } else { "not O" }, p.k, p.how, G::show(&p.val), k, G::show(got)
    );
    ensure!(den == *want, &format!("{}|wrong-point", sig), "{} {}: got {} denoting {}, want {} (P: c={:x} {} = {}, k={:x})", G::NAME, what, G::show(got), G::show_aff(&den), G::show_aff(want), p.k, p.how, G::show(&p.val), k);
    Ok(())
}

fn run<G: Grp>(s: &mut Src, info: &mut Info, key: &mut Key, ctx: &Ctx) -> Result<(), Failure> {
    let r = zp::r();
    let cat = s.choose(3);
    let ident = s.choose(5) == 0;
    let c = if ident { BigUint::zero() } else { crate::gen::scalar_nonzero(s).k };
    let p: Pt<G> = point(s, &c, cat)?;
    let ks = scalar(s);
    let k = ks.k.clone();
    let a = scalar(s).k;
    let b = scalar(s).k;
    info.class(format!("cell:{}|{}", G::NAME, p.rep.name()));
    info.class(format!("k:{}", ks.class));
    info.nontrivial = k > BigUint::one() && (p.rep != crate::gen::Rep::Affine || ks.class != "uniform");
    key.s(G::NAME).big(&p.k).s(&p.how).big(&k).big(&a).big(&b);
    if ctx.want_desc {
        info.desc = crate::runner::note(json!({"group": G::NAME, "P": desc_pt(&p), "k": zp::hexs(&k), "k_class": ks.class, "a": zp::hexs(&a), "b": zp::hexs(&b)}));
    }
    // oracle: k-fold sum of P by independent double-and-add from P's own affine coordinates
    let want = rf::aff_mul(&p.aff, &k);
    if want != G::gen_mul(&((&k * &p.k) % r)) {
        fail!("oracle|disagree", "reference double-and-add disagrees with (k*c mod r)*generator");
    }
    let fk = fr_of(&k);
    let l1 = p.val * fk;
    cmp::<G>(&l1, &want, "mul", "P*k", &p, &k)?;
    let l2 = G::rmul(fk, p.val);
    cmp::<G>(&l2, &want, "mul", "k*P", &p, &k)?;
    ensure!(l1 == l2, "mul|forms-differ", "{}: P*k != k*P under ==", G::NAME);
    // (a+b)P = aP + bP
    let (fa, fb) = (fr_of(&a), fr_of(&b));
    let lhs = p.val * (fa + fb);
    let rhs = p.val * fa + p.val * fb;
    let w = rf::aff_mul(&p.aff, &((&a + &b) % r));
    cmp::<G>(&lhs, &w, "mul-add", "P*(a+b)", &p, &a)?;
    cmp::<G>(&rhs, &w, "mul-add", "P*a + P*b", &p, &a)?;
    ensure!(lhs == rhs, "law|distributive", "{}: (a+b)P != aP+bP under == (a={:x} b={:x} P: {})", G::NAME, a, b, p.how);
    // (ab)P = a(bP)
    let lhs = p.val * (fa * fb);
    let rhs = (p.val * fb) * fa;
    let w = rf::aff_mul(&p.aff, &((&a * &b) % r));
    cmp::<G>(&lhs, &w, "mul-mul", "P*(ab)", &p, &a)?;
    cmp::<G>(&rhs, &w, "mul-mul", "(P*b)*a", &p, &a)?;
    ensure!(lhs == rhs, "law|compatible", "{}: (ab)P != a(bP) under ==", G::NAME);
    // 0P = O, 1P = P, (r-1)P = -P
    cmp::<G>(&(p.val * fr_of(&BigUint::zero())), &None, "mul-zero", "P*0", &p, &BigUint::zero())?;
    cmp::<G>(&(p.val * fr_of(&BigUint::one())), &p.aff, "mul-one", "P*1", &p, &BigUint::one())?;
    cmp::<G>(&(p.val * fr_of(&(r - 1u32))), &rf::aff_neg(&p.aff), "mul-minus-one", "P*(r-1)", &p, &(r - 1u32))?;
    ensure!(p.val * fr_of(&BigUint::one()) == p.val, "law|one", "{}: 1*P != P under ==", G::NAME);
    ensure!(p.val * fr_of(&(r - 1u32)) == -p.val, "law|minus-one", "{}: (r-1)P != -P under ==", G::NAME);
    // generator has order exactly r (r prime): G != O and (r-1)G + G = O
    let gen = G::L::one();
    ensure!(!gen.is_zero(), "order|generator-is-identity", "{}: generator is the identity", G::NAME);
    ensure!((gen * fr_of(&(r - 1u32)) + gen).is_zero(), "order|not-r", "{}: (r-1)G + G != O", G::NAME);
    ensure!(!(gen * fk).is_zero() || k.is_zero(), "order|small", "{}: k*G = O for k = {:x} != 0 mod r", G::NAME, k);
    Ok(())
}

pub fn check(g: &[u8], ctx: &Ctx) -> Result<Info, Failure> {
    let mut s = Src::new(g);
    let mut info = Info::default();
    let mut key = Key::new();
    if s.bool() {
        run::<GA>(&mut s, &mut info, &mut key, ctx)?;
    } else {
        run::<GB>(&mut s, &mut info, &mut key, ctx)?;
    }
    info.key = key.done();
    Ok(info)
}
