//! C08 — point decoders are total, strict and build-profile independent.
//! Oracle: an independent decoder written from the statement, over the reference field.
//! The same check runs in the release binary and in the dbg-profile binary (debug assertions, overflow checks).
use crate::conv::*;
use crate::gen::{felt, scalar_nonzero, Md};
use crate::props::c09::{derived_twist, twist_point};
use crate::rf::{self, Aff, Fld, F, R2};
use crate::runner::{Ctx, Failure, Info, Key, PropDef, Tier};
use crate::src::{hex, Src};
use crate::zp;
use crate::{ensure, fail};
use num_bigint::BigUint;
use serde_json::json;
use sm9_core::{CurveError, G1, G2};

pub fn def() -> PropDef {
    let mut required = vec![];
    for d in 0..6 {
        required.push(format!("decoder:{}", DECODERS[d].0));
        required.push(format!("ok:{}", DECODERS[d].0));
    }
    for k in ["valid", "prefix", "bitflip", "byteflip", "length", "coord>=q", "coord+q", "swap", "neg-y", "cross-format", "all-zero", "all-ff", "x-no-point", "twist-nonmember", "unstructured", "ysq-target"] {
        required.push(format!("kind:{}", k));
    }
    PropDef {
        id: "C08",
        check,
        genome_len: 420,
        quick_cases: 60_000,
        thorough_cases: 2_000_000,
        rule: "case = (decoder in {G1,G2} x {raw, 0x04, 0x02/0x03}, byte string of length 0..=256): valid encodings built from reference coordinates, then structured corruption (any of 256 prefixes, single-bit and single-byte flips, truncate/extend by 1..3 bytes or by whole 32-byte words / a second copy, a coordinate replaced by c+q / q / q+1 / 2^256-1 / 0, halves of an Fq2 swapped, x/y swapped, y negated, encodings of another format or group, all-zero, all-0xFF, x carrying no point, twist points outside G2) and unstructured bytes with lengths weighted towards the format lengths +-1; oracle: independent decoder (length, prefix, every coordinate < q, curve equation or square test + parity, r*P = O for G2); Ok iff oracle valid, decoded point equals the oracle's, re-encoding equals the input, never a panic; run in release and dbg profiles; non-trivial = input is not the library's own encoding of a normalised point; distinct by (decoder, bytes)",
        required,
        enumerate: Some(enumerate),
        enumerate_note: "all 256 prefix bytes x a valid body for each prefixed decoder; every length 0..=140 x {zero, 0xFF, patterned} x each decoder; every single-bit flip of valid encodings (quick: 1 per decoder, thorough: 8 per decoder) — these sub-spaces are exhaustive",
        also_dbg: true,
        assumptions: super::TRUSTED,
        max_shrink_iters: 600,
    }
}

/// (name, is_g2, format 0 raw / 1 uncompressed / 2 compressed, length)
pub const DECODERS: [(&str, bool, u8, usize); 6] = [
    ("G1::from_slice", false, 0, 64),
    ("G1::from_uncompressed", false, 1, 65),
    ("G1::from_compressed", false, 2, 33),
    ("G2::from_slice", true, 0, 128),
    ("G2::from_uncompressed", true, 1, 129),
    ("G2::from_compressed", true, 2, 65),
];

#[derive(Clone, Debug, PartialEq)]
pub enum Dec {
    P1((F, F)),
    P2((R2, R2)),
}

fn coord(b: &[u8]) -> Option<F> {
    if &zp::from_be(b) >= zp::q() {
        None
    } else {
        Some(rf::f_from_be(b))
    }
}
fn coord2(b: &[u8]) -> Option<R2> {
    // imaginary part first
    let im = coord(&b[..32])?;
    let re = coord(&b[32..])?;
    Some(R2::new(re, im))
}
fn f_sqrt(a: &F) -> Option<F> {
    let v = rf::f_to_big(a);
    if !num_traits::Zero::is_zero(&v) && !zp::is_qr(&v, zp::q()) {
        return None;
    }
    let r = R2::new(*a, F::zero()).sqrt()?;
    if Fld::is_zero(&r.b) {
        Some(r.a)
    } else {
        None
    }
}

/// the independent decoder, written from the statement of C08
pub fn oracle(d: usize, b: &[u8]) -> Option<Dec> {
    let (_, is_g2, fmt, len) = DECODERS[d];
    if b.len() != len {
        return None;
    }
    let body = match fmt {
        0 => b,
        1 => {
            if b[0] != 4 {
                return None;
            }
            &b[1..]
        }
        _ => {
            if b[0] != 2 && b[0] != 3 {
                return None;
            }
            &b[1..]
        }
    };
    if !is_g2 {
        let x = coord(&body[..32])?;
        let y = if fmt == 2 {
            let rhs = x.sqr().mul(&x).add(&rf::b1());
            let y = f_sqrt(&rhs)?;
            if f_is_odd(&y) == (b[0] == 3) {
                y
            } else {
                let ny = y.neg();
                if f_is_odd(&ny) != (b[0] == 3) {
                    return None; // y = 0 with an odd prefix: no point with that parity
                }
                ny
            }
        } else {
            coord(&body[32..64])?
        };
        let p = Some((x, y));
        if !rf::on_curve(&p, &rf::b1()) {
            return None;
        }
        Some(Dec::P1((x, y)))
    } else {
        let x = coord2(&body[..64])?;
        let y = if fmt == 2 {
            let rhs = x.sqr().mul(&x).add(&rf::b2());
            let y = rhs.sqrt()?;
            if f_is_odd(&y.a) == (b[0] == 3) {
                y
            } else {
                let ny = y.neg();
                if f_is_odd(&ny.a) != (b[0] == 3) {
                    return None;
                }
                ny
            }
        } else {
            coord2(&body[64..128])?
        };
        let p = Some((x, y));
        if !rf::on_curve(&p, &rf::b2()) {
            return None;
        }
        if rf::aff_mul(&p, zp::r()).is_some() {
            return None;
        }
        Some(Dec::P2((x, y)))
    }
}

enum Out {
    G1(Result<G1, CurveError>),
    G2(Result<G2, CurveError>),
}
fn call(d: usize, b: &[u8]) -> Out {
    match d {
        0 => Out::G1(G1::from_slice(b)),
        1 => Out::G1(G1::from_uncompressed(b)),
        2 => Out::G1(G1::from_compressed(b)),
        3 => Out::G2(G2::from_slice(b)),
        4 => Out::G2(G2::from_uncompressed(b)),
        _ => Out::G2(G2::from_compressed(b)),
    }
}
fn reencode1(d: usize, p: G1) -> Vec<u8> {
    match d {
        0 => p.to_slice().to_vec(),
        1 => p.to_uncompressed().to_vec(),
        _ => p.to_compressed().to_vec(),
    }
}
fn reencode2(d: usize, p: G2) -> Vec<u8> {
    match d {
        3 => p.to_slice().to_vec(),
        4 => p.to_uncompressed().to_vec(),
        _ => p.to_compressed().to_vec(),
    }
}

/// valid encoding for decoder d from reference coordinates
fn valid_for(d: usize, p1: &(F, F), p2: &(R2, R2)) -> Vec<u8> {
    match d {
        0 => enc_g1_raw(p1),
        1 => with_prefix(4, &enc_g1_raw(p1)),
        2 => enc_g1_compressed(p1),
        3 => enc_g2_raw(p2),
        4 => with_prefix(4, &enc_g2_raw(p2)),
        _ => enc_g2_compressed(p2),
    }
}

fn put_coord(b: &mut [u8], v: &BigUint) {
    let e = v.to_bytes_be();
    let n = e.len().min(32);
    for x in b.iter_mut() {
        *x = 0;
    }
    b[32 - n..].copy_from_slice(&e[e.len() - n..]);
}

/// byte string for decoder d, with its construction kind
pub fn decoder_bytes(s: &mut Src, d: usize) -> (Vec<u8>, String) {
    let (_, is_g2, fmt, len) = DECODERS[d];
    let q = zp::q();
    let k = scalar_nonzero(s).k;
    let k = if s.bool() { (zp::r() - &k) % zp::r() } else { k };
    let p1 = rf::g1_mul(&k).unwrap();
    let p2 = rf::g2_mul(&k).unwrap();
    let mut v = valid_for(d, &p1, &p2);
    let off = if fmt == 0 { 0 } else { 1 };
    let ncoord = (len - off) / 32;
    let kind = s.weighted(&[10, 5, 6, 4, 5, 8, 6, 4, 2, 4, 1, 1, 3, 4, 6, 4]);
    if kind == 15 {
        // x solved so that y^2 = x^3 + b is a chosen boundary value t (real only, imaginary only, small, -1, ...):
        // x = cbrt(t - b). Exercises the square root / parity step of the compressed decoders on special y^2.
        if is_g2 {
            let comp = |s: &mut Src| -> F {
                match s.choose(5) {
                    0 | 1 => F::zero(),
                    2 => F::one(),
                    3 => F::from(1 + s.choose(16) as u64),
                    _ => rf::f_from_big(&felt(s, Md::Q).v),
                }
            };
            for _ in 0..8 {
                let t = R2::new(comp(s), comp(s));
                if let Some(x) = t.sub(&rf::b2()).cbrt() {
                    let pfx = if s.bool() { 2u8 } else { 3u8 };
                    let body = enc_r2(&x);
                    let out = match fmt {
                        2 => with_prefix(pfx, &body),
                        _ => {
                            // raw / uncompressed: x with y = sqrt(t) when it exists (else y = t)
                            let y = t.sqrt().unwrap_or(t);
                            let mut v2 = body.clone();
                            v2.extend_from_slice(&enc_r2(&y));
                            if fmt == 1 {
                                with_prefix(4, &v2)
                            } else {
                                v2
                            }
                        }
                    };
                    return (out, "ysq-target".into());
                }
            }
        } else {
            for _ in 0..8 {
                let t = match s.choose(4) {
                    0 => BigUint::from(s.choose(17) as u32),
                    1 => q - 1u32 - BigUint::from(s.choose(17) as u32),
                    _ => felt(s, Md::Q).v,
                };
                let c = zp::sub_mod(&t, &BigUint::from(5u32), q);
                // q = 4 (mod 9): cube roots of cubic residues are c^((2q+1)/9)
                let x = c.modpow(&((q * 2u32 + 1u32) / 9u32), q);
                if zp::mul_mod(&zp::mul_mod(&x, &x, q), &x, q) == c {
                    let pfx = if s.bool() { 2u8 } else { 3u8 };
                    let body = zp::be32(&x).to_vec();
                    let out = match fmt {
                        2 => with_prefix(pfx, &body),
                        _ => {
                            let y = zp::sqrt_mod_5mod8(&t, q).unwrap_or(t.clone());
                            let mut v2 = body.clone();
                            v2.extend_from_slice(&zp::be32(&y));
                            if fmt == 1 {
                                with_prefix(4, &v2)
                            } else {
                                v2
                            }
                        }
                    };
                    return (out, "ysq-target".into());
                }
            }
        }
        return (v, "valid".into());
    }
    match kind {
        0 => (v, "valid".into()),
        1 => {
            if fmt == 0 {
                // raw has no prefix: corrupt the first byte instead
                v[0] = s.u8();
                return (v, "byteflip".into());
            }
            v[0] = s.u8();
            (v, "prefix".into())
        }
        2 => {
            let bit = s.choose16(len * 8);
            v[bit / 8] ^= 1 << (bit % 8);
            (v, "bitflip".into())
        }
        3 => {
            let i = s.choose16(len);
            v[i] = s.u8();
            (v, "byteflip".into())
        }
        4 => {
            // by 1..3 bytes, or by whole 32-byte words / a whole second encoding (word-wise parsers ignore surplus words)
            let n = [1usize, 2, 3, 1, 2, 3, 32, 64, len, 33][s.choose(10)];
            if s.bool() {
                v.truncate(len - n.min(len));
            } else if s.bool() {
                if n == len && s.bool() {
                    let copy = v.clone();
                    v.extend(copy);
                } else {
                    v.extend(s.bytes(n));
                }
                if n >= 32 {
                    return (v, "length-words".into());
                }
            } else {
                // drop from the front (prefix removed / shifted)
                v.drain(..n.min(len));
            }
            (v, "length".into())
        }
        5 => {
            // one coordinate replaced by a non-canonical or special value
            let c = s.choose(ncoord);
            let pos = off + 32 * c;
            let cur = zp::from_be(&v[pos..pos + 32]);
            let two256 = &zp::c().two256;
            let choice = s.choose(6);
            let nv = match choice {
                0 => {
                    if &(&cur + q) < two256 {
                        &cur + q
                    } else {
                        q.clone()
                    }
                }
                1 => q.clone(),
                2 => q + 1u32,
                3 => two256 - 1u32,
                4 => BigUint::from(0u32),
                _ => q - 1u32,
            };
            let name = if choice == 0 && &(&cur + q) < two256 { "coord+q" } else if choice <= 3 { "coord>=q" } else { "coord-special" };
            put_coord(&mut v[pos..pos + 32], &nv);
            (v, name.into())
        }
        6 => {
            // swaps: halves of an Fq2, or x and y
            if is_g2 && s.bool() {
                let c = s.choose(ncoord / 2);
                let pos = off + 64 * c;
                let (a, b): (Vec<u8>, Vec<u8>) = (v[pos..pos + 32].to_vec(), v[pos + 32..pos + 64].to_vec());
                v[pos..pos + 32].copy_from_slice(&b);
                v[pos + 32..pos + 64].copy_from_slice(&a);
            } else if fmt != 2 {
                let half = (len - off) / 2;
                let (a, b): (Vec<u8>, Vec<u8>) = (v[off..off + half].to_vec(), v[off + half..].to_vec());
                v[off..off + half].copy_from_slice(&b);
                v[off + half..].copy_from_slice(&a);
            } else {
                v[0] ^= 1; // the other parity: still valid (the negative point)
            }
            (v, "swap".into())
        }
        7 => {
            // y negated (valid: the negative point) or, for compressed, parity flipped
            if fmt == 2 {
                v[0] ^= 1;
            } else if !is_g2 {
                let ny = p1.1.neg();
                v[off + 32..off + 64].copy_from_slice(&rf::f_to_be(&ny));
            } else {
                let ny = p2.1.neg();
                v[off + 64..off + 128].copy_from_slice(&enc_r2(&ny));
            }
            (v, "neg-y".into())
        }
        8 => {
            // encoding of another format / group fed to this decoder
            let other = s.choose(6);
            (valid_for(other, &p1, &p2), "cross-format".into())
        }
        9 => {
            // body of another format with this decoder's prefix/length conventions mixed
            let other = s.choose(6);
            let mut w = valid_for(other, &p1, &p2);
            w.resize(len, s.u8());
            if fmt != 0 {
                w[0] = v[0];
            }
            (w, "cross-format".into())
        }
        10 => (vec![0u8; len], "all-zero".into()),
        11 => (vec![0xFFu8; len], "all-ff".into()),
        12 => {
            // x that carries no point (compressed) / (x, y) with x not on the curve
            if !is_g2 {
                let mut x = felt(s, Md::Q).v;
                loop {
                    let rhs = zp::add_mod(&zp::mul_mod(&zp::mul_mod(&x, &x, q), &x, q), &BigUint::from(5u32), q);
                    if !zp::is_qr(&rhs, q) {
                        break;
                    }
                    x = (x + 1u32) % q;
                }
                put_coord(&mut v[off..off + 32], &x);
            } else {
                let mut x = R2::new(rf::f_from_big(&felt(s, Md::Q).v), rf::f_from_big(&felt(s, Md::Q).v));
                loop {
                    let rhs = x.sqr().mul(&x).add(&rf::b2());
                    if !rhs.is_square() {
                        break;
                    }
                    x = R2::new(x.a + F::one(), x.b);
                }
                v[off..off + 64].copy_from_slice(&enc_r2(&x));
            }
            (v, "x-no-point".into())
        }
        13 => {
            // a point of the twist outside G2 (or of small order), in this decoder's format
            if is_g2 {
                let w = s.choose(7);
                let (_, pt) = derived_twist(s, w);
                let pt = pt.unwrap_or_else(|| twist_point(s));
                (valid_for(d, &p1, &pt), "twist-nonmember".into())
            } else {
                // G1 has cofactor 1: use a point of the twist's x in G1 format instead (almost surely no point)
                let t = twist_point(s);
                put_coord(&mut v[off..off + 32], &rf::f_to_big(&t.0.a));
                (v, "twist-nonmember".into())
            }
        }
        _ => {
            // unstructured bytes, lengths weighted towards the format lengths +-1
            let l = match s.choose(4) {
                0 => len,
                1 => {
                    let t = [32usize, 33, 64, 65, 128, 129][s.choose(6)];
                    (t + s.choose(3)).saturating_sub(1)
                }
                _ => s.choose(141),
            };
            let mut w = s.bytes(l);
            if !w.is_empty() && s.bool() {
                w[0] = [2u8, 3, 4, 0, 6, 7][s.choose(6)];
            }
            (w, "unstructured".into())
        }
    }
}

pub fn check_bytes(d: usize, b: &[u8], info: &mut Info) -> Result<(), Failure> {
    let name = DECODERS[d].0;
    let want = oracle(d, b);
    let got = call(d, b);
    match (got, want) {
        (Out::G1(Err(_)), None) | (Out::G2(Err(_)), None) => {
            info.class(format!("err:{}", name));
        }
        (Out::G1(Ok(p)), Some(Dec::P1(w))) => {
            info.class(format!("ok:{}", name));
            ensure!(g1_denotes(&p) == Some(w), &format!("{}|wrong-point", name), "{}({}) decoded {} instead of ({}, {})", name, hex(b), show_g1(&p), show_f(&w.0), show_f(&w.1));
            let re = reencode1(d, p);
            ensure!(re == b, &format!("{}|reencode", name), "{}({}) = Ok but re-encoding gives {}", name, hex(b), hex(&re));
        }
        (Out::G2(Ok(p)), Some(Dec::P2(w))) => {
            info.class(format!("ok:{}", name));
            ensure!(g2_denotes(&p) == Some(w), &format!("{}|wrong-point", name), "{}({}) decoded {} instead of ({}, {})", name, hex(b), show_g2(&p), show_r2(&w.0), show_r2(&w.1));
            let re = reencode2(d, p);
            ensure!(re == b, &format!("{}|reencode", name), "{}({}) = Ok but re-encoding gives {}", name, hex(b), hex(&re));
        }
        (Out::G1(Ok(p)), None) => {
            let why = why_invalid(d, b);
            fail!(&format!("{}|accepted-invalid|{}", name, why), "{}({}) = Ok({}) but the input is invalid: {}", name, hex(b), show_g1(&p), why)
        }
        (Out::G2(Ok(p)), None) => {
            let why = why_invalid(d, b);
            fail!(&format!("{}|accepted-invalid|{}", name, why), "{}({}) = Ok({}) but the input is invalid: {}", name, hex(b), show_g2(&p), why)
        }
        (Out::G1(Err(e)), Some(_)) | (Out::G2(Err(e)), Some(_)) => {
            fail!(&format!("{}|rejected-valid", name), "{}({}) = Err({:?}) but the input is a valid encoding", name, hex(b), e)
        }
        _ => fail!("oracle|type", "oracle/decoder group mismatch"),
    }
    Ok(())
}

/// first reason the oracle rejects (for the failure signature)
fn why_invalid(d: usize, b: &[u8]) -> &'static str {
    let (_, _is_g2, fmt, len) = DECODERS[d];
    if b.len() != len {
        return "length";
    }
    if fmt == 1 && b[0] != 4 {
        return "prefix";
    }
    if fmt == 2 && b[0] != 2 && b[0] != 3 {
        return "prefix";
    }
    let body = if fmt == 0 { b } else { &b[1..] };
    for c in body.chunks(32) {
        if &zp::from_be(c) >= zp::q() {
            return "coordinate>=q";
        }
    }
    "not-a-member"
}

pub fn check(g: &[u8], ctx: &Ctx) -> Result<Info, Failure> {
    let mut s = Src::new(g);
    let mut info = Info::default();
    let mut key = Key::new();
    // explicit mode (used by the enumerations and by fuzzing seeds): 0xFF, decoder, length (u16), raw bytes
    let (d, bytes, kind) = if g.first() == Some(&0xFF) {
        s.u8();
        let d = s.choose(6);
        let l = (s.u16() as usize).min(300);
        (d, s.bytes(l), "explicit".to_string())
    } else {
        s.u8();
        let d = s.choose(6);
        let (b, k) = decoder_bytes(&mut s, d);
        (d, b, k)
    };
    info.class(format!("decoder:{}", DECODERS[d].0));
    info.class(format!("kind:{}", kind));
    info.class(format!("len-delta:{}", (bytes.len() as i64 - DECODERS[d].3 as i64).clamp(-4, 4)));
    info.nontrivial = kind != "valid";
    key.n(d as u64).b(&bytes);
    if ctx.want_desc {
        info.desc = crate::runner::note(json!({"decoder": DECODERS[d].0, "kind": kind, "len": bytes.len(), "bytes": hex(&bytes)}));
    }
    check_bytes(d, &bytes, &mut info)?;
    info.key = key.done();
    Ok(info)
}

fn explicit(d: usize, b: &[u8]) -> Vec<u8> {
    let mut g = vec![0xFF, ((d * 256).div_ceil(6)) as u8];
    g.extend_from_slice(&(b.len() as u16).to_be_bytes());
    g.extend_from_slice(b);
    g
}

fn enumerate(t: Tier) -> Vec<Vec<u8>> {
    let mut out = vec![];
    let nvalid = if t == Tier::Quick { 1 } else { 8 };
    let ks: Vec<BigUint> = (0..8u32).map(|i| (BigUint::from(0x1234_5678_9abc_def1u64) * BigUint::from(i + 1)).pow(3) % zp::r()).collect();
    for d in 0..6 {
        let (_, _, fmt, len) = DECODERS[d];
        // all 256 prefix bytes x valid bodies
        for (i, k) in ks.iter().enumerate().take(if t == Tier::Quick { 2 } else { 8 }) {
            let p1 = rf::g1_mul(k).unwrap();
            let p2 = rf::g2_mul(k).unwrap();
            let v = valid_for(d, &p1, &p2);
            if fmt != 0 {
                for pfx in 0..=255u8 {
                    let mut w = v.clone();
                    w[0] = pfx;
                    out.push(explicit(d, &w));
                }
            }
            // every single-bit flip
            if i < nvalid {
                for bit in 0..len * 8 {
                    let mut w = v.clone();
                    w[bit / 8] ^= 1 << (bit % 8);
                    out.push(explicit(d, &w));
                }
            }
        }
        // every length 0..=140 x fills
        for l in 0..=140usize {
            out.push(explicit(d, &vec![0u8; l]));
            out.push(explicit(d, &vec![0xFFu8; l]));
            let pat: Vec<u8> = (0..l).map(|j| if j == 0 { [2u8, 3, 4][l % 3] } else { (j * 37 + l) as u8 }).collect();
            out.push(explicit(d, &pat));
        }
    }
    out
}

#[allow(dead_code)]
fn _t(_: Aff<F>) {}
