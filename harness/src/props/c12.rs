//! C12 — Fq2 arithmetic is arithmetic in Fq[u]/(u^2+2).
//! Two oracles that must agree: pairs of num-bigint integers, and the ark-ff based reference R2.
use crate::conv::*;
use crate::gen::{felt, felt_pair, mont_of, mont_pre_sum, Md};
use crate::rf::{self, Fld, R2};
use crate::runner::{Ctx, Failure, Info, Key, PropDef};
use crate::src::{hex, Src};
use crate::zp;
use crate::{ensure, fail};
use num_bigint::BigUint;
use num_traits::Zero;
use serde_json::json;
use sm9_core::{verif_hooks as hk, Fq, Fq2};

pub fn def() -> PropDef {
    PropDef {
        id: "C12",
        check,
        genome_len: 420,
        quick_cases: 1_200_000,
        thorough_cases: 60_000_000,
        rule: "case = (x, y, z in Fq2) with components from the limb-boundary classes of C06 (incl. zero components, top-heavy stored values, related components); all operator forms of + - * neg, real/imaginary/is_even/is_zero, to_slice/from_slice, ring laws, the internal squared/inverse/scale/div2/double/triple/mul_by_nonresidue/unitary_inverse and the interleaved sum_of_products (hooks) compared with integer pairs mod q and with the ark-ff reference; the carry class u>>256 of each two-term sum of products is computed in the model; non-trivial = some component from a boundary class or carry class >= 1; distinct by (x,y,z)",
        required: crate::runner::req(&["sop2:carry0", "sop2:carry1", "comp:zero", "x:real-only", "x:imag-only", "comp:limb-mont", "comp:limb-mont-top", "inverse:zero"]),
        enumerate: None,
        enumerate_note: "two-term sums of products have u < 1.72*2^256, so carry class 2 is arithmetically unreachable here (it is required in C17's four-term products)",
        also_dbg: false,
        assumptions: super::TRUSTED,
        max_shrink_iters: 400,
    }
}

type M2 = (BigUint, BigUint);

fn m_add(a: &M2, b: &M2) -> M2 {
    let q = zp::q();
    (zp::add_mod(&a.0, &b.0, q), zp::add_mod(&a.1, &b.1, q))
}
fn m_sub(a: &M2, b: &M2) -> M2 {
    let q = zp::q();
    (zp::sub_mod(&a.0, &b.0, q), zp::sub_mod(&a.1, &b.1, q))
}
fn m_neg(a: &M2) -> M2 {
    let q = zp::q();
    (zp::neg_mod(&a.0, q), zp::neg_mod(&a.1, q))
}
pub fn m_mul(a: &M2, b: &M2) -> M2 {
    let q = zp::q();
    let two = BigUint::from(2u32);
    let re = zp::sub_mod(&zp::mul_mod(&a.0, &b.0, q), &zp::mul_mod(&two, &zp::mul_mod(&a.1, &b.1, q), q), q);
    let im = zp::add_mod(&zp::mul_mod(&a.0, &b.1, q), &zp::mul_mod(&a.1, &b.0, q), q);
    (re, im)
}
fn to_r2(a: &M2) -> R2 {
    R2::new(rf::f_from_big(&a.0), rf::f_from_big(&a.1))
}
fn of_r2(x: &R2) -> M2 {
    (rf::f_to_big(&x.a), rf::f_to_big(&x.b))
}
fn lib(a: &M2) -> Fq2 {
    fq2_of_bigs(&a.0, &a.1)
}
fn obs(x: &Fq2) -> M2 {
    // observed through the 64-byte encoding: imaginary part first
    let e = x.to_slice();
    (zp::from_be(&e[32..]), zp::from_be(&e[..32]))
}
fn show(a: &M2) -> String {
    format!("({:x} + {:x}*u)", a.0, a.1)
}

/// an Fq2 operand: components possibly related / zero
pub fn fq2_operand(s: &mut Src, info: &mut Info, tag: &str) -> M2 {
    let q = zp::q();
    let (re, im) = match s.weighted(&[6, 2, 2, 3, 2, 1]) {
        5 => {
            // an element of norm c^2 for small c: c * w / conj(w)  (norm-dependent shortcuts, e.g. in inverse)
            let a = felt(s, Md::Q).v;
            let b = felt(s, Md::Q).v;
            let c = BigUint::from(1 + s.choose(3) as u32);
            info.class("comp-rel:norm-small-square");
            let two = BigUint::from(2u32);
            let a2 = zp::mul_mod(&a, &a, q);
            let b2 = zp::mul_mod(&two, &zp::mul_mod(&b, &b, q), q);
            let n = (&a2 + &b2) % q;
            match zp::inv_mod(&n, q) {
                Some(ni) => {
                    let re = zp::mul_mod(&((&a2 + q - &b2) % q), &ni, q);
                    let im = zp::mul_mod(&zp::mul_mod(&two, &zp::mul_mod(&a, &b, q), q), &ni, q);
                    (zp::mul_mod(&re, &c, q), zp::mul_mod(&im, &c, q))
                }
                None => (c, BigUint::zero()),
            }
        }
        4 => {
            // imaginary part = zeta * real part for a root of unity zeta of order 2, 3, 4 or 6
            let a = felt(s, Md::Q);
            let (zeta, _) = crate::grp::fq_roots_of_unity(1 + s.choose(5));
            info.class("comp-rel:root-of-unity-line");
            info.class(format!("comp:{}", a.class));
            let b = zp::mul_mod(&a.v, &crate::rf::f_to_big(&zeta), q);
            (a.v, b)
        }
        0 => {
            let a = felt(s, Md::Q);
            let b = felt(s, Md::Q);
            info.class(format!("comp:{}", a.class));
            info.class(format!("comp:{}", b.class));
            (a.v, b.v)
        }
        1 => {
            let a = felt(s, Md::Q);
            info.class(format!("{}:real-only", tag));
            info.class("comp:zero");
            (a.v, BigUint::zero())
        }
        2 => {
            let b = felt(s, Md::Q);
            info.class(format!("{}:imag-only", tag));
            info.class("comp:zero");
            (BigUint::zero(), b.v)
        }
        _ => {
            let (a, b, rel) = felt_pair(s, Md::Q);
            info.class(format!("comp-rel:{}", rel));
            info.class(format!("comp:{}", a.class));
            (a.v, b.v)
        }
    };
    (re % q, im % q)
}

macro_rules! eqm {
    ($got:expr, $want:expr, $sig:expr, $($arg:tt)*) => {{
        let gv: Fq2 = $got;
        if Fq2::from_slice(&gv.to_slice()) != Some(gv) {
            return Err(Failure::new(&format!("{}|second-representation", $sig), format!("{}: result is not in canonical form (from_slice(to_slice(v)) != v)", format!($($arg)*))));
        }
        let g = obs(&gv);
        if g != $want {
            return Err(Failure::new($sig, format!("{}: got {} want {}", format!($($arg)*), show(&g), show(&$want))));
        }
    }};
}

pub fn check(g: &[u8], ctx: &Ctx) -> Result<Info, Failure> {
    let mut s = Src::new(g);
    let mut info = Info::default();
    let q = zp::q();
    let x = fq2_operand(&mut s, &mut info, "x");
    let y = match s.weighted(&[10, 2, 2, 2]) {
        0 => fq2_operand(&mut s, &mut info, "y"),
        1 => {
            info.class("pair:equal");
            x.clone()
        }
        2 => {
            info.class("pair:negation");
            m_neg(&x)
        }
        _ => {
            info.class("pair:conjugate");
            (x.0.clone(), zp::neg_mod(&x.1, q))
        }
    };
    let z = fq2_operand(&mut s, &mut info, "z");
    let mut key = Key::new();
    key.big(&x.0).big(&x.1).big(&y.0).big(&y.1).big(&z.0).big(&z.1);
    info.key = key.done();
    if ctx.want_desc {
        info.desc = crate::runner::note(json!({"x": show(&x), "y": show(&y), "z": show(&z)}));
    }

    // carry classes of the two interleaved sums of products of x*y, from the stored representatives
    let sx = (mont_of(&x.0, Md::Q), mont_of(&x.1, Md::Q));
    let sy = (mont_of(&y.0, Md::Q), mont_of(&y.1, Md::Q));
    let m2a1 = mont_of(&zp::neg_mod(&zp::add_mod(&x.1, &x.1, q), q), Md::Q); // stored(-2 x1)
    let u0 = mont_pre_sum(&[(sx.0.clone(), sy.0.clone()), (m2a1, sy.1.clone())], Md::Q);
    let u1 = mont_pre_sum(&[(sx.0.clone(), sy.1.clone()), (sx.1.clone(), sy.0.clone())], Md::Q);
    let c0 = (&u0 >> 256u32).to_u64_digits().first().copied().unwrap_or(0);
    let c1 = (&u1 >> 256u32).to_u64_digits().first().copied().unwrap_or(0);
    info.class(format!("sop2:carry{}", c0));
    info.class(format!("sop2:carry{}", c1));
    let boundary = info.classes.iter().any(|c| c.starts_with("comp:") && c != "comp:uniform") || info.classes.iter().any(|c| c.starts_with("pair:") || c.starts_with("comp-rel:"));
    info.nontrivial = boundary || c0 >= 1 || c1 >= 1;

    let (lx, ly, lz) = (lib(&x), lib(&y), lib(&z));
    // accessors and encoding
    ensure!(big_of_fq(&lx.real()) == x.0 && big_of_fq(&lx.imaginary()) == x.1, "accessors|value", "real/imaginary of {} = ({:x},{:x})", show(&x), big_of_fq(&lx.real()), big_of_fq(&lx.imaginary()));
    let enc = lx.to_slice();
    let mut want_enc = zp::be32(&x.1).to_vec();
    want_enc.extend_from_slice(&zp::be32(&x.0));
    ensure!(enc[..] == want_enc[..], "to_slice|layout", "to_slice({}) = {} want imaginary||real = {}", show(&x), hex(&enc), hex(&want_enc));
    let arr: [u8; 64] = lx.into();
    ensure!(arr == enc, "to_slice|into-array", "Into<[u8;64]> differs from to_slice");
    match Fq2::from_slice(&enc) {
        Some(b) => ensure!(b == lx && obs(&b) == x, "from_slice|roundtrip", "from_slice(to_slice(x)) != x for {}", show(&x)),
        None => fail!("from_slice|rejected-own-encoding", "from_slice(to_slice(x)) = None for {}", show(&x)),
    }
    ensure!(lx.is_zero() == (x.0.is_zero() && x.1.is_zero()), "is_zero|value", "is_zero({}) = {}", show(&x), lx.is_zero());
    ensure!(lx.is_even() == !x.0.bit(0), "is_even|value", "is_even({}) = {} (parity of the real part)", show(&x), lx.is_even());
    ensure!((lx == ly) == (x == y), "eq|value", "({} == {}) = {}", show(&x), show(&y), lx == ly);

    // the two oracles agree with each other on the product (guards the oracle, not the library)
    let want_mul = m_mul(&x, &y);
    if of_r2(&to_r2(&x).mul(&to_r2(&y))) != want_mul {
        fail!("oracle|disagree", "bigint and ark-ff reference disagree on {} * {}", show(&x), show(&y));
    }

    // + - * neg, every operator form
    let want = m_add(&x, &y);
    eqm!(lx + ly, want, "add|value", "{} + {}", show(&x), show(&y));
    eqm!(&lx + ly, want, "add|value", "&x + y");
    eqm!(lx + &ly, want, "add|value", "x + &y");
    eqm!(&lx + &ly, want, "add|value", "&x + &y");
    eqm!({ let mut t = lx; t += ly; t }, want, "add|value", "x += y");
    eqm!({ let mut t = lx; t += &ly; t }, want, "add|value", "x += &y");
    let want = m_sub(&x, &y);
    eqm!(lx - ly, want, "sub|value", "{} - {}", show(&x), show(&y));
    eqm!(&lx - ly, want, "sub|value", "&x - y");
    eqm!(lx - &ly, want, "sub|value", "x - &y");
    eqm!(&lx - &ly, want, "sub|value", "&x - &y");
    eqm!({ let mut t = lx; t -= ly; t }, want, "sub|value", "x -= y");
    eqm!({ let mut t = lx; t -= &ly; t }, want, "sub|value", "x -= &y");
    let want = want_mul.clone();
    eqm!(lx * ly, want, "mul|value", "{} * {}", show(&x), show(&y));
    eqm!(&lx * ly, want, "mul|value", "&x * y");
    eqm!(lx * &ly, want, "mul|value", "x * &y");
    eqm!(&lx * &ly, want, "mul|value", "&x * &y");
    eqm!({ let mut t = lx; t *= ly; t }, want, "mul|value", "x *= y");
    eqm!({ let mut t = lx; t *= &ly; t }, want, "mul|value", "x *= &y");
    let want = m_neg(&x);
    eqm!(-lx, want, "neg|value", "-{}", show(&x));
    eqm!(-&lx, want, "neg|value", "-&x");

    // ring laws on library values
    ensure!(lx * ly == ly * lx, "law|mul-commutative", "x*y != y*x for {} {}", show(&x), show(&y));
    ensure!((lx * ly) * lz == lx * (ly * lz), "law|mul-associative", "(xy)z != x(yz) for {} {} {}", show(&x), show(&y), show(&z));
    ensure!(lx * (ly + lz) == lx * ly + lx * lz, "law|distributive", "x(y+z) != xy+xz for {} {} {}", show(&x), show(&y), show(&z));
    ensure!(lx * Fq2::one() == lx && Fq2::one() * lx == lx, "law|one", "x*1 != x for {}", show(&x));
    ensure!(lx + Fq2::zero() == lx && (lx - lx).is_zero(), "law|zero", "x+0 != x or x-x != 0 for {}", show(&x));
    let u = Fq2::new(Fq::zero(), Fq::one());
    ensure!(obs(&(u * u)) == (q - 2u32, BigUint::zero()), "law|u^2=-2", "u*u = {}", show(&obs(&(u * u))));

    // the squaring used inside point and pairing arithmetic (hook) agrees with multiplication
    let want = m_mul(&x, &x);
    eqm!(hk::fq2_squared(&lx), want, "squared|value", "squared({})", show(&x));
    ensure!(hk::fq2_squared(&lx) == lx * lx, "squared|vs-mul", "squared(x) != x*x for {}", show(&x));
    // inverse (hook)
    match (hk::fq2_inverse(&lx), to_r2(&x).inv()) {
        (None, None) => info.class("inverse:zero"),
        (Some(i), Some(w)) => {
            let w = of_r2(&w);
            eqm!(i, w, "inverse|value", "inverse({})", show(&x));
            ensure!(obs(&(i * lx)) == (BigUint::from(1u32), BigUint::zero()), "inverse|times-x", "inverse(x)*x != 1 for {}", show(&x));
        }
        (None, Some(_)) => fail!("inverse|none-for-nonzero", "inverse({}) = None", show(&x)),
        (Some(_), None) => fail!("inverse|some-for-zero", "inverse(0) = Some"),
    }
    // other internal helpers used by the tower / curve code
    let k = y.0.clone();
    eqm!(hk::fq2_scale(&lx, &fq_of_big(&k)), (zp::mul_mod(&x.0, &k, q), zp::mul_mod(&x.1, &k, q)), "scale|value", "scale({}, {:x})", show(&x), k);
    let half = (q + 1u32) >> 1;
    eqm!(hk::fq2_div2(&lx), (zp::mul_mod(&x.0, &half, q), zp::mul_mod(&x.1, &half, q)), "div2|value", "div2({})", show(&x));
    eqm!(hk::fq2_double(&lx), m_add(&x, &x), "double|value", "double({})", show(&x));
    eqm!(hk::fq2_triple(&lx), m_add(&m_add(&x, &x), &x), "triple|value", "triple({})", show(&x));
    eqm!(hk::fq2_mul_by_nonresidue(&lx), m_mul(&x, &(BigUint::zero(), BigUint::from(1u32))), "mul_by_nonresidue|value", "u*{}", show(&x));
    eqm!(hk::fq2_unitary_inverse(&lx), (x.0.clone(), zp::neg_mod(&x.1, q)), "unitary_inverse|value", "conj({})", show(&x));
    // the interleaved sum of products itself, on these four components
    let sop = hk::fq_sum_of_products2(&[fq_of_big(&x.0), fq_of_big(&x.1)], &[fq_of_big(&y.0), fq_of_big(&y.1)]);
    let want = zp::add_mod(&zp::mul_mod(&x.0, &y.0, q), &zp::mul_mod(&x.1, &y.1, q), q);
    ensure!(big_of_fq(&sop) == want, "sum_of_products2|value", "sop([{:x},{:x}],[{:x},{:x}]) = {:x} want {:x}", x.0, x.1, y.0, y.1, big_of_fq(&sop), want);
    let us = mont_pre_sum(&[(sx.0.clone(), sy.0.clone()), (sx.1.clone(), sy.1.clone())], Md::Q);
    info.class(format!("sop2:carry{}", (&us >> 256u32).to_u64_digits().first().copied().unwrap_or(0)));
    Ok(info)
}
