//! C18 — results do not depend on the build profile.
//! A universal interpreter turns a byte program into a transcript of raw outputs of public operations
//! (coordinates, canonical bytes, flags, Ok/Err, caught panics). The release binary generates programs with
//! proptest, runs each locally and in a `dbg`-profile child process (debug assertions + overflow checks, same
//! sources), and requires byte-identical transcripts and no debug-only assertion / overflow panic.
use crate::conv::*;
use crate::gen::{felt, felt_pair, fr_of, scalar, Md};
use crate::grp::{point, Grp, Pt, GA, GB};
use crate::props::c07::StreamRng;
use crate::props::c08::{decoder_bytes, DECODERS};
use crate::props::c09::derived_twist;
use crate::props::c13::{conv_bytes, text};
use crate::props::c17::{t12_of, SM9_A2, SM9_A3, SM9_S};
use crate::rf::{self, Fld, F, P12};
use crate::runner::{panic_msg, Ctx, Failure, Info, Key, PropDef};
use crate::src::{fnv, hex, Src};
use crate::zp;
use crate::{ensure, fail};
use serde_json::json;
use sm9_core::verif_hooks as hk;
use sm9_core::{fast_pairing, pairing, AffineG1, AffineG2, Fq, Fq2, Fr, G2Prepared, Group, G1, G2};
use std::cell::RefCell;
use std::io::{Read, Write};
use std::panic::{catch_unwind, AssertUnwindSafe};
use std::process::{Child, ChildStdin, ChildStdout, Command, Stdio};
use std::str::FromStr;

pub fn def() -> PropDef {
    let mut required = crate::runner::req(&["malformed-input", "boundary-operand"]);
    for k in OPS.iter() {
        required.push(format!("op:{}", k));
    }
    PropDef {
        id: "C18",
        check,
        genome_len: 1500,
        quick_cases: 16_000,
        thorough_cases: 400_000,
        rule: "case = byte program of 1..6 operations for a universal interpreter over the public API (Fr/Fq/Fq2 arithmetic on limb-boundary operands, all conversions on byte strings of every length / digit strings / bit indices / RNG streams, all six decoders on the malformed-input classes of C08, validated affine construction on twist / small-order / near-miss points, G1/G2 group operations over all representations incl. identities, encoders, the three pairing entry points, Gt operations, and the internal tower routines through the hooks); the transcript (raw coordinates, canonical bytes, flags, Ok/Err, caught panic messages) produced by the release build is compared byte for byte with the transcript of a dbg-profile child (debug assertions + integer overflow checks); any 'attempt to .. overflow' / 'assertion failed' panic is reported even if both sides show it; non-trivial = program contains a malformed decoder/converter input or a boundary-class operand; distinct by program",
        required,
        enumerate: None,
        enumerate_note: "",
        also_dbg: false,
        assumptions: &[
            "rustc / std",
            "proptest (generation, shrinking)",
            "the dbg profile of /verif/harness/Cargo.toml (inherits dev, debug-assertions = true, overflow-checks = true, opt-level 2 for all packages) stands for 'cargo's dev profile with debug assertions and overflow checks'",
            "operand generators of C01-C17 (gen.rs, grp.rs)",
        ],
        max_shrink_iters: 300,
    }
}

pub const OPS: [&str; 13] = ["fr", "fq", "fq2", "convert", "decode", "affine-new", "g1", "g2", "pairing", "gt", "tower", "prepared", "raw-triples"];

struct Tr {
    out: Vec<u8>,
    classes: Vec<String>,
    nontrivial: bool,
    log: Vec<String>,
}
impl Tr {
    fn tag(&mut self, t: &str) {
        self.out.extend_from_slice(t.as_bytes());
        self.out.push(b'|');
    }
    fn b(&mut self, b: &[u8]) {
        self.out.extend_from_slice(&(b.len() as u32).to_le_bytes());
        self.out.extend_from_slice(b);
    }
    fn flag(&mut self, f: bool) {
        self.out.push(f as u8);
    }
    fn g1(&mut self, p: &G1) {
        self.b(&p.x().to_slice());
        self.b(&p.y().to_slice());
        self.b(&p.z().to_slice());
    }
    fn g2(&mut self, p: &G2) {
        self.b(&p.x().to_slice());
        self.b(&p.y().to_slice());
        self.b(&p.z().to_slice());
    }
}

fn op_field<const IS_Q: bool>(s: &mut Src, t: &mut Tr) {
    let m = if IS_Q { Md::Q } else { Md::R };
    let (a, b, rel) = felt_pair(s, m);
    let e = felt(s, m);
    if a.class != "uniform" || b.class != "uniform" || rel != "independent" {
        t.nontrivial = true;
        t.classes.push("boundary-operand".into());
    }
    t.log.push(format!("{} a={:x} b={:x} e={:x}", m.name(), a.v, b.v, e.v));
    if IS_Q {
        let (x, y, z) = (fq_of_big(&a.v), fq_of_big(&b.v), fq_of_big(&e.v));
        for v in [x + y, x - y, x * y, -x, x.pow(z), { let mut w = x; w += y; w *= y; w -= x; w }] {
            t.b(&v.to_slice());
        }
        t.b(&x.inverse().map(|v| v.to_slice().to_vec()).unwrap_or_default());
        t.b(&x.sqrt().map(|v| v.to_slice().to_vec()).unwrap_or_default());
        t.flag(x.is_zero());
        t.flag(x.is_even());
        t.flag(x == y);
        for v in [hk::fq_squared(&x), hk::fq_double(&x), hk::fq_triple(&x), hk::fq_div2(&x)] {
            t.b(&v.to_slice());
        }
    } else {
        let (x, y, z) = (fr_of_big(&a.v), fr_of_big(&b.v), fr_of_big(&e.v));
        for v in [x + y, x - y, x * y, -x, x.pow(z), { let mut w = x; w += y; w *= y; w -= x; w }] {
            t.b(&v.to_slice());
        }
        t.b(&x.inverse().map(|v| v.to_slice().to_vec()).unwrap_or_default());
        t.flag(x.is_zero());
        t.flag(x == y);
        t.b(&hk::fr_squared(&x).to_slice());
        t.b(&hk::fr_double(&x).to_slice());
    }
}

fn op_fq2(s: &mut Src, t: &mut Tr) {
    let mut info = Info::default();
    let x = crate::props::c12::fq2_operand(s, &mut info, "x");
    let y = crate::props::c12::fq2_operand(s, &mut info, "y");
    if info.classes.iter().any(|c| c.starts_with("comp:") && c != "comp:uniform") {
        t.nontrivial = true;
        t.classes.push("boundary-operand".into());
    }
    t.log.push(format!("fq2 x=({:x},{:x}) y=({:x},{:x})", x.0, x.1, y.0, y.1));
    let (lx, ly) = (fq2_of_bigs(&x.0, &x.1), fq2_of_bigs(&y.0, &y.1));
    for v in [lx + ly, lx - ly, lx * ly, -lx, hk::fq2_squared(&lx), hk::fq2_div2(&lx), hk::fq2_mul_by_nonresidue(&lx), hk::fq2_scale(&lx, &ly.real())] {
        t.b(&v.to_slice());
    }
    t.b(&lx.sqrt().map(|v| v.to_slice().to_vec()).unwrap_or_default());
    t.b(&hk::fq2_inverse(&lx).map(|v| v.to_slice().to_vec()).unwrap_or_default());
    t.flag(lx.is_zero());
    t.flag(lx.is_even());
    t.b(&Fq2::from_slice(&lx.to_slice()).map(|v| v.to_slice().to_vec()).unwrap_or_default());
    t.b(&hk::fq_sum_of_products2(&[lx.real(), lx.imaginary()], &[ly.real(), ly.imaginary()]).to_slice());
}

fn op_convert(s: &mut Src, t: &mut Tr) {
    t.nontrivial = true;
    t.classes.push("malformed-input".into());
    match s.choose(7) {
        0 => {
            let len = crate::props::c13::conv_len(s);
            let (b, _) = conv_bytes(s, len, Md::R);
            t.log.push(format!("Fr::from_slice/from_hash {}", hex(&b)));
            t.b(&Fr::from_slice(&b).map(|v| v.to_slice().to_vec()).unwrap_or_default());
            t.b(&Fr::from_hash(&b).map(|v| v.to_slice().to_vec()).unwrap_or_default());
            t.flag(Fr::try_from(&b[..]).is_ok());
        }
        1 => {
            let len = crate::props::c13::conv_len(s);
            let (b, _) = conv_bytes(s, len, Md::Q);
            t.log.push(format!("Fq::from_slice {}", hex(&b)));
            t.b(&Fq::from_slice(&b).map(|v| v.to_slice().to_vec()).unwrap_or_default());
            t.flag(Fq::try_from(&b[..]).is_ok());
            // Fq2 from the same bytes (any length)
            t.b(&Fq2::from_slice(&b).map(|v| v.to_slice().to_vec()).unwrap_or_default());
        }
        2 => {
            let mq = s.bool();
            let (b, _) = conv_bytes(s, 64, if mq { Md::Q } else { Md::R });
            let mut a = [0u8; 64];
            a.copy_from_slice(&b);
            t.log.push(format!("interpret {}", hex(&b)));
            t.b(&Fr::interpret(&a).to_slice());
            t.b(&Fq::interpret(&a).to_slice());
            t.b(&Fq2::from_slice(&b).map(|v| v.to_slice().to_vec()).unwrap_or_default());
        }
        3 => {
            let (txt, _, _) = text(s);
            t.log.push(format!("from_str {:?}", txt));
            t.b(&Fr::from_str(&txt).map(|v| v.to_slice().to_vec()).unwrap_or_default());
            t.b(&Fq::from_str(&txt).map(|v| v.to_slice().to_vec()).unwrap_or_default());
        }
        4 => {
            let v = felt(s, Md::R).v;
            let i = s.choose16(301);
            let to = s.bool();
            t.log.push(format!("set_bit {:x} {} {}", v, i, to));
            let mut x = fr_of_big(&v);
            x.set_bit(i, to);
            t.b(&x.to_slice());
        }
        5 => {
            let n = s.choose(100);
            let data = s.bytes(n);
            let fill = [0u8, 0xFF, 0x01, 0x80][s.choose(4)];
            t.log.push(format!("Fr::random stream {} fill {:02x}", hex(&data), fill));
            t.b(&Fr::random(&mut StreamRng::new(data, fill)).to_slice());
        }
        _ => {
            let v = felt(s, Md::Q).v;
            let len = crate::props::c13::conv_len(s);
            t.log.push(format!("to_big_endian {:x} into {} bytes", v, len));
            let mut buf = vec![0u8; len];
            t.flag(fq_of_big(&v).to_big_endian(&mut buf).is_ok());
            t.b(&buf);
        }
    }
}

fn op_decode(s: &mut Src, t: &mut Tr) {
    let d = s.choose(6);
    let (b, kind) = decoder_bytes(s, d);
    if kind != "valid" {
        t.nontrivial = true;
        t.classes.push("malformed-input".into());
    }
    t.log.push(format!("{} [{}] {}", DECODERS[d].0, kind, hex(&b)));
    match d {
        0 | 1 | 2 => {
            let r = match d {
                0 => G1::from_slice(&b),
                1 => G1::from_uncompressed(&b),
                _ => G1::from_compressed(&b),
            };
            match r {
                Ok(p) => {
                    t.flag(true);
                    t.g1(&p);
                    t.b(&p.to_compressed());
                }
                Err(_) => t.flag(false),
            }
        }
        _ => {
            let r = match d {
                3 => G2::from_slice(&b),
                4 => G2::from_uncompressed(&b),
                _ => G2::from_compressed(&b),
            };
            match r {
                Ok(p) => {
                    t.flag(true);
                    t.g2(&p);
                    t.b(&p.to_compressed());
                }
                Err(_) => t.flag(false),
            }
        }
    }
}

fn op_affine_new(s: &mut Src, t: &mut Tr) {
    t.nontrivial = true;
    t.classes.push("malformed-input".into());
    if s.bool() {
        let w = s.choose(7);
        let (cls, pt) = derived_twist(s, w);
        if let Some(p) = pt {
            t.log.push(format!("AffineG2::new [{}]", cls));
            t.flag(AffineG2::new(fq2_of_r2(&p.0), fq2_of_r2(&p.1)).is_ok());
        }
    } else {
        let (x, y) = (felt(s, Md::Q).v, felt(s, Md::Q).v);
        t.log.push(format!("AffineG1::new {:x} {:x}", x, y));
        t.flag(AffineG1::new(fq_of_big(&x), fq_of_big(&y)).is_ok());
    }
}

fn op_group<G: Grp>(s: &mut Src, t: &mut Tr) -> Result<(), Failure> {
    let (ka, kb, kc) = (scalar(s).k, scalar(s).k, scalar(s));
    let (ca, cb) = (s.choose(3), s.choose(3));
    let ida = s.choose(6) == 0;
    let zero = num_bigint::BigUint::from(0u32);
    let a: Pt<G> = point(s, if ida { &zero } else { &ka }, ca)?;
    let b: Pt<G> = point(s, &kb, cb)?;
    if ca != 0 || cb != 0 || kc.class != "uniform" {
        t.nontrivial = true;
        t.classes.push("boundary-operand".into());
    }
    t.log.push(format!("{} A: k={:x} {}; B: k={:x} {}; scalar {:x}", G::NAME, a.k, a.how, b.k, b.how, kc.k));
    let emit = |t: &mut Tr, p: &G::L| {
        let (x, y, z) = G::coords(p);
        t.b(&G::enc_b(&x));
        t.b(&G::enc_b(&y));
        t.b(&G::enc_b(&z));
    };
    let f = fr_of(&kc.k);
    for v in [a.val + b.val, a.val - b.val, -a.val, a.val * f, G::rmul(f, b.val), a.val + a.val] {
        emit(t, &v);
    }
    t.flag(a.val == b.val);
    t.flag(a.val.is_zero());
    let mut n = a.val;
    n.normalize();
    emit(t, &n);
    match G::affine_from_jacobian(a.val) {
        Some((x, y)) => {
            t.b(&G::enc_b(&x));
            t.b(&G::enc_b(&y));
            t.b(&G::to_slice(a.val));
            t.b(&G::to_uncompressed(a.val));
            t.b(&G::to_compressed(a.val));
        }
        None => t.flag(false),
    }
    Ok(())
}

/// group operations on ARBITRARY coordinate triples (G::new accepts anything): off-curve points, y = 0, z = 0, two triples
/// with the same affine x and unrelated y, ... The values are unspecified; only "release == dbg, no debug-only panic" is.
fn op_raw<G: Grp>(s: &mut Src, t: &mut Tr) {
    t.nontrivial = true;
    t.classes.push("malformed-input".into());
    let comp = |s: &mut Src| -> G::B {
        match s.choose(4) {
            0 => G::B::zero(),
            1 => G::B::one(),
            _ => G::arb_base(s),
        }
    };
    let (x, y1, y2) = (comp(s), comp(s), comp(s));
    let (l, _) = G::lambda(s);
    let (m, _) = G::lambda(s);
    let shape = s.choose(5);
    let (a, b) = match shape {
        // same affine x, unrelated y, both z != 1
        0 => (G::new(&x.mul(&l.sqr()), &y1.mul(&l.sqr().mul(&l)), &l), G::new(&x.mul(&m.sqr()), &y2.mul(&m.sqr().mul(&m)), &m)),
        // same affine x, one operand with z = 1
        1 => (G::new(&x, &y1, &G::B::one()), G::new(&x.mul(&m.sqr()), &y2.mul(&m.sqr().mul(&m)), &m)),
        // y = 0 with z != 0
        2 => (G::new(&x, &G::B::zero(), &l), G::new(&comp(s), &comp(s), &m)),
        // arbitrary triples, components from {0, 1, boundary, uniform}
        3 => (G::new(&comp(s), &comp(s), &comp(s)), G::new(&comp(s), &comp(s), &comp(s))),
        // identical raw triples
        _ => {
            let p = G::new(&x, &y1, &l);
            (p, p)
        }
    };
    t.log.push(format!("{} raw triples shape {}: {} ; {}", G::NAME, shape, G::show(&a), G::show(&b)));
    let emit = |t: &mut Tr, p: &G::L| {
        let (x, y, z) = G::coords(p);
        t.b(&G::enc_b(&x));
        t.b(&G::enc_b(&y));
        t.b(&G::enc_b(&z));
    };
    let k = fr_of(&scalar(s).k);
    for v in [a + b, b + a, a - b, -a, a + a, a * k, G::rmul(k, b)] {
        emit(t, &v);
    }
    t.flag(a == b);
    t.flag(a.is_zero());
    let mut n = a;
    n.normalize();
    emit(t, &n);
    t.flag(G::affine_from_jacobian(b).is_some());
}

fn op_pairing(s: &mut Src, t: &mut Tr, prepared: bool) -> Result<(), Failure> {
    let (c, d) = (scalar(s).k, scalar(s).k);
    let (cp, cq) = (s.choose(3), s.choose(3));
    let zero = num_bigint::BigUint::from(0u32);
    let (zp_, zq_) = (s.choose(6) == 0, s.choose(6) == 0);
    let p: Pt<GA> = point(s, if zp_ { &zero } else { &c }, cp)?;
    let q: Pt<GB> = point(s, if zq_ { &zero } else { &d }, cq)?;
    if cp != 0 || cq != 0 {
        t.nontrivial = true;
        t.classes.push("boundary-operand".into());
    }
    t.log.push(format!("pairing P: k={:x} {}; Q: k={:x} {}", p.k, p.how, q.k, q.how));
    if prepared {
        let pr = G2Prepared::from(q.val);
        let p2: Pt<GA> = point(s, &d, cp)?;
        t.b(&pr.pairing(&p.val).to_slice());
        t.b(&pr.clone().pairing(&p2.val).to_slice());
        t.b(&pr.pairing(&p.val).to_slice());
        t.b(&(hk::prepared_len(&pr) as u32).to_le_bytes());
    } else {
        t.b(&pairing(p.val, q.val).to_slice());
        t.b(&fast_pairing(p.val, q.val).to_slice());
        t.b(&G2Prepared::from(q.val).pairing(&p.val).to_slice());
    }
    Ok(())
}

fn op_gt(s: &mut Src, t: &mut Tr) {
    let (c, d, a) = (scalar(s).k, scalar(s).k, scalar(s));
    if a.class != "uniform" {
        t.nontrivial = true;
        t.classes.push("boundary-operand".into());
    }
    t.log.push(format!("gt c={:x} d={:x} a={:x}", c, d, a.k));
    let g = pairing(G1::one() * fr_of(&c), G2::one());
    let h = fast_pairing(G1::one(), G2::one() * fr_of(&d));
    t.b(&(g * h).to_slice());
    t.b(&g.pow(fr_of(&a.k)).to_slice());
    t.b(&g.inverse().map(|v| v.to_slice().to_vec()).unwrap_or_default());
    t.flag(g == h);
}

fn op_tower(s: &mut Src, t: &mut Tr) {
    let mut c = [<F as Fld>::zero(); 12];
    let sparse = s.bool();
    for ci in c.iter_mut() {
        if !sparse || s.choose(4) == 0 {
            *ci = rf::f_from_big(&felt(s, Md::Q).v);
        }
    }
    t.nontrivial = true;
    t.classes.push("boundary-operand".into());
    let x = t12_of(&P12(c));
    let mut c2 = c;
    c2.rotate_left(5);
    let y = t12_of(&P12(c2));
    t.log.push(format!("tower x={}", hex(&x.to_slice()[..64])));
    for v in [x.mul(&y), x.squared(), x.frobenius(1), x.frobenius(2), x.frobenius(3), x.frobenius(6), x.mul_by_nonresidue(), x.pow_u128(SM9_S), x.pow_u128(SM9_A3), x.pow_u128(SM9_A2 >> (s.choose(128) as u32))] {
        t.b(&v.to_slice());
    }
    t.b(&x.inverse().map(|v| v.to_slice().to_vec()).unwrap_or_default());
    if s.choose(4) == 0 {
        t.b(&x.final_exponentiation().map(|v| v.to_slice().to_vec()).unwrap_or_default());
        t.b(&x.final_exp().map(|v| v.to_slice().to_vec()).unwrap_or_default());
    }
    let a4 = x.c0();
    let b4 = y.c1();
    for v in [a4.mul(&b4), a4.squared(), a4.frobenius([10, 11, 12, 21, 22, 30, 31, 32][s.choose(8)]), a4.mul_by_nonresidue()] {
        t.b(&v.to_slice());
    }
    t.b(&a4.inverse().map(|v| v.to_slice().to_vec()).unwrap_or_default());
}

/// Runs the byte program; every operation is wrapped so that a panic becomes part of the transcript.
pub fn transcript(g: &[u8]) -> (Vec<u8>, Vec<String>, bool, Vec<String>) {
    let mut s = Src::new(g);
    let mut t = Tr { out: vec![], classes: vec![], nontrivial: false, log: vec![] };
    let n = 1 + s.choose(6);
    for _ in 0..n {
        let op = s.choose(OPS.len());
        t.classes.push(format!("op:{}", OPS[op]));
        t.tag(OPS[op]);
        let before = t.out.len();
        let r = catch_unwind(AssertUnwindSafe(|| -> Result<(), Failure> {
            match op {
                0 => op_field::<false>(&mut s, &mut t),
                1 => op_field::<true>(&mut s, &mut t),
                2 => op_fq2(&mut s, &mut t),
                3 => op_convert(&mut s, &mut t),
                4 => op_decode(&mut s, &mut t),
                5 => op_affine_new(&mut s, &mut t),
                6 => op_group::<GA>(&mut s, &mut t)?,
                7 => op_group::<GB>(&mut s, &mut t)?,
                8 => op_pairing(&mut s, &mut t, false)?,
                9 => op_gt(&mut s, &mut t),
                10 => op_tower(&mut s, &mut t),
                12 => {
                    if s.bool() {
                        op_raw::<GA>(&mut s, &mut t)
                    } else {
                        op_raw::<GB>(&mut s, &mut t)
                    }
                }
                _ => op_pairing(&mut s, &mut t, true)?,
            }
            Ok(())
        }));
        match r {
            Ok(Ok(())) => {}
            Ok(Err(f)) => {
                t.out.truncate(before);
                t.tag(&format!("OPERAND-FAILURE:{}", f.sig));
            }
            Err(e) => {
                t.out.truncate(before);
                t.tag(&format!("PANIC:{}", panic_msg(e)));
                break; // the byte source position is unknown after a panic
            }
        }
    }
    (t.out, t.classes, t.nontrivial, t.log)
}

const PROTO_MAGIC: u32 = 0x5339_4D32;

/// fingerprint of the harness sources (build.rs); library-independent
fn src_hash() -> u64 {
    env!("SM9VERIF_SRC_HASH").parse().unwrap_or(0)
}

#[allow(dead_code)]
fn log_hash(log: &[String]) -> u64 {
    let mut k = Key::new();
    for l in log {
        k.s(l);
    }
    k.done()
}

// ------------------------------------------------------------------------------------------ child process protocol
pub fn serve() {
    crate::runner::silence_panics();
    let stdin = std::io::stdin();
    let stdout = std::io::stdout();
    let mut i = stdin.lock();
    let mut o = stdout.lock();
    loop {
        let mut l = [0u8; 4];
        if i.read_exact(&mut l).is_err() {
            return;
        }
        let n = u32::from_le_bytes(l) as usize;
        let mut g = vec![0u8; n];
        if i.read_exact(&mut g).is_err() {
            return;
        }
        let (tr, _, _, log) = transcript(&g);
        // fingerprint of the decoded program: lets the parent tell "the two harness binaries decode this genome
        // differently" (stale build, infrastructure) from "the library behaves differently" (violation)
        let _ = o.write_all(&PROTO_MAGIC.to_le_bytes());
        let _ = o.write_all(&src_hash().to_le_bytes());
        let _ = &log;
        let _ = o.write_all(&(tr.len() as u32).to_le_bytes());
        let _ = o.write_all(&tr);
        let _ = o.flush();
    }
}

struct Peer {
    child: Child,
    tx: ChildStdin,
    rx: ChildStdout,
}
thread_local! {
    static PEER: RefCell<Option<Peer>> = const { RefCell::new(None) };
}

fn dbg_binary() -> Option<std::path::PathBuf> {
    if let Ok(p) = std::env::var("SM9CHECK_DBG") {
        return Some(p.into());
    }
    let exe = std::env::current_exe().ok()?;
    let p = exe.parent()?.parent()?.join("dbg").join("sm9check");
    if p.exists() {
        Some(p)
    } else {
        None
    }
}

fn spawn() -> Result<Peer, String> {
    let bin = dbg_binary().ok_or("dbg-profile sm9check binary not found (build with: cargo build --profile dbg)")?;
    let mut child = Command::new(bin).arg("serve").stdin(Stdio::piped()).stdout(Stdio::piped()).stderr(Stdio::null()).spawn().map_err(|e| e.to_string())?;
    let tx = child.stdin.take().ok_or("no stdin")?;
    let rx = child.stdout.take().ok_or("no stdout")?;
    Ok(Peer { child, tx, rx })
}

/// Some(transcript) from the dbg child, Err(..) on infrastructure trouble, Ok(None) if the child died on this input
fn ask_child(g: &[u8]) -> Result<Option<Vec<u8>>, String> {
    PEER.with(|p| {
        let mut p = p.borrow_mut();
        if p.is_none() {
            *p = Some(spawn()?);
        }
        let peer = p.as_mut().unwrap();
        let ok = (|| -> std::io::Result<Vec<u8>> {
            peer.tx.write_all(&(g.len() as u32).to_le_bytes())?;
            peer.tx.write_all(g)?;
            peer.tx.flush()?;
            let mut mg = [0u8; 4];
            peer.rx.read_exact(&mut mg)?;
            if u32::from_le_bytes(mg) != PROTO_MAGIC {
                return Err(std::io::Error::new(std::io::ErrorKind::InvalidData, "protocol"));
            }
            let mut h = [0u8; 8];
            peer.rx.read_exact(&mut h)?;
            let mut l = [0u8; 4];
            peer.rx.read_exact(&mut l)?;
            let mut t = vec![0u8; u32::from_le_bytes(l) as usize];
            peer.rx.read_exact(&mut t)?;
            let mut out = h.to_vec();
            out.extend_from_slice(&t);
            Ok(out)
        })();
        match ok {
            Ok(t) => Ok(Some(t)),
            Err(e) if e.kind() == std::io::ErrorKind::InvalidData => {
                if let Some(mut old) = p.take() {
                    let _ = old.child.kill();
                    let _ = old.child.wait();
                }
                Err("the dbg-profile binary speaks another protocol version (stale build: run /verif/run.sh build)".to_string())
            }
            Err(_) => {
                // the child died (abort / stack overflow); restart for the next case
                if let Some(mut old) = p.take() {
                    let _ = old.child.kill();
                    let _ = old.child.wait();
                }
                Ok(None)
            }
        }
    })
}

fn debug_only_panic(tr: &[u8]) -> Option<String> {
    let s = String::from_utf8_lossy(tr);
    for pat in ["attempt to ", "assertion failed", "overflow", "assertion `"] {
        if let Some(i) = s.find("PANIC:") {
            let msg: String = s[i..].chars().take(160).collect();
            if msg.contains(pat) {
                return Some(msg);
            }
        }
    }
    None
}

pub fn check(g: &[u8], ctx: &Ctx) -> Result<Info, Failure> {
    let mut info = Info::default();
    let (local, classes, nontrivial, log) = transcript(g);
    info.classes = classes;
    info.nontrivial = nontrivial;
    let mut key = Key::new();
    key.n(fnv(&local)).n(log.len() as u64);
    for l in log.iter() {
        key.s(l);
    }
    info.key = key.done();
    if ctx.want_desc {
        info.desc = crate::runner::note(json!({"program": log, "transcript_bytes": local.len(), "transcript_fnv": format!("{:016x}", fnv(&local))}));
    }
    // in-process part (also what the fuzz target with debug assertions runs): no assertion / overflow panic
    if let Some(m) = debug_only_panic(&local) {
        fail!("profile|debug-only-panic", "an assertion / overflow check fired in this build ({}): {}", if cfg!(debug_assertions) { "dbg" } else { "release" }, m);
    }
    if cfg!(debug_assertions) || std::env::var("SM9CHECK_NO_CHILD").is_ok() {
        return Ok(info);
    }
    let remote = match ask_child(g) {
        Ok(Some(t)) => {
            let mut h = [0u8; 8];
            h.copy_from_slice(&t[..8]);
            if u64::from_le_bytes(h) != src_hash() {
                fail!("harness|stale-dbg-binary", "the dbg-profile harness binary was built from different harness sources than this release binary (rebuild both with /verif/run.sh build)");
            }
            t[8..].to_vec()
        }
        Ok(None) => fail!("profile|dbg-child-died", "the dbg-profile process died on this program while the release build survived; program: {:?}", log),
        Err(e) => fail!("harness|no-dbg-child", "cannot talk to the dbg-profile child: {}", e),
    };
    if let Some(m) = debug_only_panic(&remote) {
        fail!("profile|debug-only-panic", "a debug assertion / overflow check fired in the dbg build: {} ; program: {:?}", m, log);
    }
    if remote != local {
        let pos = remote.iter().zip(local.iter()).position(|(a, b)| a != b).unwrap_or(remote.len().min(local.len()));
        let ctx_l = String::from_utf8_lossy(&local[pos.saturating_sub(40)..(pos + 60).min(local.len())]).to_string();
        let ctx_r = String::from_utf8_lossy(&remote[pos.saturating_sub(40)..(pos + 60).min(remote.len())]).to_string();
        ensure!(false, "profile|transcripts-differ", "release and dbg transcripts differ at byte {} (release {} bytes, dbg {} bytes); release: {:?} ; dbg: {:?} ; program: {:?}", pos, local.len(), remote.len(), ctx_l, ctx_r, log);
    }
    Ok(info)
}
