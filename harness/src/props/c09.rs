//! C09 — only points of the curve and of the order-r subgroup pass validated construction.
use crate::conv::*;
use crate::gen::{felt, scalar_nonzero, Md};
use crate::rf::{self, Aff, Fld, F, R2};
use crate::runner::{Ctx, Failure, Info, Key, PropDef};
use crate::src::{hex, Src};
use crate::zp;
use crate::{ensure, fail};
use num_bigint::BigUint;
use num_traits::{One, Zero};
use serde_json::json;
use sm9_core::{AffineG1, AffineG2, G2};

pub fn def() -> PropDef {
    PropDef {
        id: "C09",
        check,
        genome_len: 400,
        quick_cases: 8_000,
        thorough_cases: 400_000,
        rule: "case = (constructor, (x,y)): AffineG1::new on curve points, near misses, wrong-b points, uniform pairs; AffineG2::new and the three G2 decoders on subgroup points, random points of the twist (order r*h, built from a generated x by the reference sqrt), cofactor-cleared points h*T, r*T, points of order 13 / 1621 / 13*1621 (r*h/13*T etc.), subgroup point + small-order point, near misses (y+1, x+1), wrong-b points, points of the untwisted curve embedded in Fq2, uniform pairs, and two-step histories (a subgroup point is accepted first, then a twist point sharing the real or the imaginary part of its x is submitted); oracle: reference curve equation and r*P = O by reference scalar multiplication; non-trivial = input on the curve/twist but not a plain generator multiple, or a near miss; distinct by (constructor, x, y)",
        required: crate::runner::req(&[
            "g1:on-curve", "g1:near-miss", "g1:wrong-b", "g1:uniform", "g2:subgroup", "g2:twist-random", "g2:cofactor-cleared", "g2:r*T", "g2:order-13", "g2:order-1621",
            "g2:order-13*1621", "g2:subgroup+small", "g2:near-miss", "g2:wrong-b", "g2:untwisted", "g2:uniform", "g2:after-accept-shared-component", "expect:accept", "expect:reject",
        ]),
        enumerate: None,
        enumerate_note: "",
        also_dbg: false,
        assumptions: super::TRUSTED,
        max_shrink_iters: 200,
    }
}

/// a point of the twist E': y^2 = x^3 + b' over Fq2 with x derived from the byte source (x.re is incremented until
/// x^3 + b' is a square: construction with a bounded deterministic walk, no rejection of the whole case)
pub fn twist_point_with_b(s: &mut Src, b: &R2) -> (R2, R2) {
    let mut x = R2::new(rf::f_from_big(&felt(s, Md::Q).v), rf::f_from_big(&felt(s, Md::Q).v));
    let neg = s.bool();
    loop {
        let rhs = x.sqr().mul(&x).add(b);
        if let Some(y) = rhs.sqrt() {
            if !Fld::is_zero(&y) {
                return (x, if neg { y.neg() } else { y });
            }
        }
        x = R2::new(x.a + F::one(), x.b);
    }
}
pub fn twist_point(s: &mut Src) -> (R2, R2) {
    twist_point_with_b(s, &rf::b2())
}

pub struct SmallOrders {
    pub rh: BigUint,
}
pub fn cof() -> &'static BigUint {
    &zp::c().h
}

/// points derived from a random twist point T: (class, point)
pub fn derived_twist(s: &mut Src, which: usize) -> (&'static str, Aff<R2>) {
    let r = zp::r();
    let h = cof();
    let t = Some(twist_point(s));
    let rh = r * h;
    match which % 7 {
        0 => ("g2:twist-random", t),
        1 => ("g2:cofactor-cleared", rf::aff_mul(&t, h)),
        2 => ("g2:r*T", rf::aff_mul(&t, r)),
        3 => ("g2:order-13", rf::aff_mul(&t, &(&rh / 13u32))),
        4 => ("g2:order-1621", rf::aff_mul(&t, &(&rh / 1621u32))),
        5 => ("g2:order-13*1621", rf::aff_mul(&t, &(&rh / (13u32 * 1621u32)))),
        _ => {
            // subgroup point + small-order point
            let small = rf::aff_mul(&t, &(&rh / if s.bool() { 13u32 } else { 1621u32 }));
            let k = scalar_nonzero(s).k;
            ("g2:subgroup+small", rf::aff_add(&rf::g2_mul(&k), &small))
        }
    }
}

fn g2_member(p: &(R2, R2)) -> bool {
    let a = Some(*p);
    rf::on_curve(&a, &rf::b2()) && rf::aff_mul(&a, zp::r()).is_none()
}

pub fn check(g: &[u8], ctx: &Ctx) -> Result<Info, Failure> {
    let mut s = Src::new(g);
    let mut info = Info::default();
    let mut key = Key::new();
    let q = zp::q();
    if s.choose(4) == 0 {
        // ------------------------------------------------------------ AffineG1::new
        let (x, y, cls): (BigUint, BigUint, &str) = match s.weighted(&[3, 3, 2, 2]) {
            0 => {
                let k = scalar_nonzero(&mut s).k;
                let a = rf::g1_mul(&k).unwrap();
                (rf::f_to_big(&a.0), rf::f_to_big(&a.1), "g1:on-curve")
            }
            1 => {
                let k = scalar_nonzero(&mut s).k;
                let a = rf::g1_mul(&k).unwrap();
                let (x, y) = (rf::f_to_big(&a.0), rf::f_to_big(&a.1));
                match s.choose(4) {
                    0 => (x, (y + 1u32) % q, "g1:near-miss"),
                    1 => ((x + 1u32) % q, y, "g1:near-miss"),
                    2 => (y, x, "g1:near-miss"),
                    _ => (zp::neg_mod(&x, q), y, "g1:near-miss"),
                }
            }
            2 => {
                // a point of y^2 = x^3 + b' for b' != 5
                let bp = BigUint::from(1 + s.choose(20) as u32);
                let bp = if bp == BigUint::from(5u32) { BigUint::from(6u32) } else { bp };
                let mut x = felt(&mut s, Md::Q).v;
                loop {
                    let rhs = zp::add_mod(&zp::mul_mod(&zp::mul_mod(&x, &x, q), &x, q), &bp, q);
                    if zp::is_qr(&rhs, q) {
                        let y = R2::new(rf::f_from_big(&rhs), F::zero()).sqrt().unwrap();
                        break (x, rf::f_to_big(&y.a), "g1:wrong-b");
                    }
                    x = (x + 1u32) % q;
                }
            }
            _ => (felt(&mut s, Md::Q).v, felt(&mut s, Md::Q).v, "g1:uniform"),
        };
        info.class(cls);
        let on = zp::mul_mod(&y, &y, q) == zp::add_mod(&zp::mul_mod(&zp::mul_mod(&x, &x, q), &x, q), &BigUint::from(5u32), q);
        info.class(if on { "expect:accept" } else { "expect:reject" });
        info.nontrivial = cls != "g1:uniform";
        key.s("g1").big(&x).big(&y);
        if ctx.want_desc {
            info.desc = crate::runner::note(json!({"constructor": "AffineG1::new", "class": cls, "x": zp::hexs(&x), "y": zp::hexs(&y), "on_curve": on}));
        }
        match AffineG1::new(fq_of_big(&x), fq_of_big(&y)) {
            Ok(a) => {
                ensure!(on, "affine-g1|accepted-off-curve", "AffineG1::new({:x}, {:x}) = Ok but y^2 != x^3 + 5", x, y);
                ensure!(big_of_fq(&a.x()) == x && big_of_fq(&a.y()) == y, "affine-g1|coords", "AffineG1::new stored different coordinates");
            }
            Err(e) => ensure!(!on, "affine-g1|rejected-curve-point", "AffineG1::new({:x}, {:x}) = Err({:?}) but the point is on the curve", x, y, e),
        }
        info.key = key.done();
        return Ok(info);
    }
    // ---------------------------------------------------------------- AffineG2::new and the G2 decoders
    let (cls, pt): (&str, Aff<R2>) = match s.weighted(&[2, 9, 2, 1, 1, 1, 2]) {
        6 => {
            // history: a subgroup point S is validated first (must be accepted), then a point of the twist that shares one
            // component of x with S (validators that remember earlier verdicts must still decide on the whole input)
            let sp = rf::g2_mul(&scalar_nonzero(&mut s).k).unwrap();
            if let Err(e) = AffineG2::new(fq2_of_r2(&sp.0), fq2_of_r2(&sp.1)) {
                fail!("affine-g2|rejected-member", "AffineG2::new = Err({:?}) for a subgroup point x={} y={}", e, show_r2(&sp.0), show_r2(&sp.1));
            }
            let keep_real = s.bool();
            let mut o = rf::f_from_big(&felt(&mut s, Md::Q).v);
            let neg = s.bool();
            let p = loop {
                let x = if keep_real { R2::new(sp.0.a, o) } else { R2::new(o, sp.0.b) };
                if x != sp.0 {
                    let rhs = x.sqr().mul(&x).add(&rf::b2());
                    if let Some(y) = rhs.sqrt() {
                        if !Fld::is_zero(&y) {
                            break (x, if neg { y.neg() } else { y });
                        }
                    }
                }
                o = o + F::one();
            };
            ("g2:after-accept-shared-component", Some(p))
        }
        0 => {
            let k = scalar_nonzero(&mut s).k;
            ("g2:subgroup", rf::g2_mul(&k))
        }
        1 => {
            let w = s.choose(7);
            derived_twist(&mut s, w)
        }
        2 => {
            let base = if s.bool() { rf::g2_mul(&scalar_nonzero(&mut s).k).unwrap() } else { twist_point(&mut s) };
            let one = R2::one();
            let p = match s.choose(4) {
                0 => (base.0, base.1.add(&one)),
                1 => (base.0.add(&one), base.1),
                2 => (base.1, base.0),
                _ => (base.0.conj(), base.1), // Frobenius on x only
            };
            ("g2:near-miss", Some(p))
        }
        3 => {
            // a point of y^2 = x^3 + b' with b' != 5u
            let bp = match s.choose(4) {
                0 => R2::new(F::from(5u64), F::zero()), // the untwisted coefficient
                1 => R2::new(F::zero(), -F::from(5u64)),
                2 => R2::new(F::zero(), F::from(10u64)),
                _ => R2::new(F::from(1 + s.choose(9) as u64), F::from(5u64)),
            };
            ("g2:wrong-b", Some(twist_point_with_b(&mut s, &bp)))
        }
        4 => {
            // a G1 point embedded as (x + 0u, y + 0u): on the untwisted curve y^2 = x^3 + 5
            let a = rf::g1_mul(&scalar_nonzero(&mut s).k).unwrap();
            ("g2:untwisted", Some((R2::new(a.0, F::zero()), R2::new(a.1, F::zero()))))
        }
        _ => {
            let x = R2::new(rf::f_from_big(&felt(&mut s, Md::Q).v), rf::f_from_big(&felt(&mut s, Md::Q).v));
            let y = R2::new(rf::f_from_big(&felt(&mut s, Md::Q).v), rf::f_from_big(&felt(&mut s, Md::Q).v));
            ("g2:uniform", Some((x, y)))
        }
    };
    info.class(cls);
    let p = match pt {
        Some(p) => p,
        None => {
            // the derived point happened to be the identity (e.g. T had no order-13 component): nothing to construct
            info.class("g2:derived-identity");
            key.s("g2-identity").s(cls);
            info.key = key.done();
            return Ok(info);
        }
    };
    let member = g2_member(&p);
    let on = rf::on_curve(&Some(p), &rf::b2());
    info.class(if member { "expect:accept" } else { "expect:reject" });
    if on && !member {
        info.class("g2:on-twist-outside-subgroup");
    }
    info.nontrivial = cls != "g2:uniform" && cls != "g2:subgroup";
    key.s("g2").b(&enc_g2_raw(&p));
    if ctx.want_desc {
        info.desc = crate::runner::note(json!({"constructor": "AffineG2::new + G2 decoders", "class": cls, "x": show_r2(&p.0), "y": show_r2(&p.1), "on_twist": on, "in_subgroup": member}));
    }
    match AffineG2::new(fq2_of_r2(&p.0), fq2_of_r2(&p.1)) {
        Ok(a) => {
            ensure!(member, &format!("affine-g2|accepted-nonmember|{}", if on { "on-twist" } else { "off-curve" }), "AffineG2::new = Ok for a [{}] point that is {} : x={} y={}", cls, if on { "on the twist but outside the order-r subgroup" } else { "not on the twist" }, show_r2(&p.0), show_r2(&p.1));
            ensure!(r2_of_fq2(&a.x()) == p.0 && r2_of_fq2(&a.y()) == p.1, "affine-g2|coords", "AffineG2::new stored different coordinates");
        }
        Err(e) => ensure!(!member, "affine-g2|rejected-member", "AffineG2::new = Err({:?}) for a subgroup point [{}] x={} y={}", e, cls, show_r2(&p.0), show_r2(&p.1)),
    }
    // the three G2 decoders on the encodings of the same (x, y)
    let raw = enc_g2_raw(&p);
    let unc = with_prefix(4, &raw);
    let cmp = enc_g2_compressed(&p);
    let res: [(&str, Result<G2, sm9_core::CurveError>, &Vec<u8>); 3] =
        [("from_slice", G2::from_slice(&raw), &raw), ("from_uncompressed", G2::from_uncompressed(&unc), &unc), ("from_compressed", G2::from_compressed(&cmp), &cmp)];
    for (name, r, bytes) in res.iter() {
        // for the compressed form only x and the parity are transmitted: the decoder reconstructs a point of the twist
        // with this x (if any); acceptance must follow membership of *that* point
        let expect = if *name == "from_compressed" {
            let rhs = p.0.sqr().mul(&p.0).add(&rf::b2());
            match rhs.sqrt() {
                Some(y0) => g2_member(&(p.0, y0)),
                None => false,
            }
        } else {
            member
        };
        match r {
            Ok(d) => {
                ensure!(expect, &format!("{}|accepted-nonmember", name), "G2::{}({}) = Ok for a [{}] input outside G2", name, hex(bytes), cls);
                let den = g2_denotes(d);
                ensure!(den.map(|a| a.0) == Some(p.0), &format!("{}|wrong-point", name), "G2::{} decoded a different x", name);
                ensure!(den.is_some() && g2_member(&den.unwrap()), &format!("{}|decoded-nonmember", name), "G2::{} returned a point outside G2", name);
            }
            Err(e) => ensure!(!expect, &format!("{}|rejected-member", name), "G2::{}({}) = Err({:?}) for a subgroup point [{}]", name, hex(bytes), e, cls),
        }
    }
    info.key = key.done();
    Ok(info)
}
