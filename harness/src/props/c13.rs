//! C13 — byte, decimal and hash conversions to field elements compute n mod p.
use crate::conv::*;
use crate::gen::{felt, Md};
use crate::runner::{Ctx, Failure, Info, Key, PropDef};
use crate::src::{hex, Src};
use crate::zp;
use crate::{ensure, fail};
use num_bigint::BigUint;
use num_traits::{One, Zero};
use serde_json::json;
use sm9_core::{Fq, Fr};
use std::str::FromStr;

pub fn def() -> PropDef {
    PropDef {
        id: "C13",
        check,
        genome_len: 260,
        quick_cases: 3_000_000,
        thorough_cases: 120_000_000,
        rule: "case = one conversion call: from_slice/TryFrom (Fr,Fq) and from_hash on byte strings of every length 0..=70 (all-zero, all-0xFF, p-1, p, p+1, 2^256-1, k*p and k*(r-1) +-1 near 2^512, uniform), interpret on 64 bytes, from_str on digit strings up to 160 chars and strings with one foreign character injected, to_big_endian into buffers of length 0..=70, set_bit for indices 0..=300; non-trivial = length != 32, or value >= p before reduction, or a rejected input, or a bit index that changes the value / crosses r; distinct by (operation, input)",
        required: crate::runner::req(&[
            "bytes:high-part-near-p", "bytes:wide-limb-pattern", "op:from_slice", "op:interpret", "op:from_hash", "op:from_str", "op:to_big_endian", "op:set_bit", "len:0", "len:1", "len:31", "len:32", "len:33",
            "len:64", "len:65", "len:70", "bytes:reduced", "str:rejected", "str:accepted", "set_bit:overflow-r", "set_bit:index>=256", "hash:reduced", "buf:wrong-size",
        ]),
        enumerate: Some(enumerate),
        enumerate_note: "every length 0..=70 x {all-zero, all-0xFF, uniform} x {Fr,Fq from_slice, from_hash}; every bit index 0..=300 x {set, clear} on 4 fixed values; every buffer length 0..=70",
        also_dbg: false,
        assumptions: super::TRUSTED,
        max_shrink_iters: 600,
    }
}

/// byte string of length `len` aimed at the reduction boundaries
pub fn conv_bytes(s: &mut Src, len: usize, m: Md) -> (Vec<u8>, &'static str) {
    let p = m.p();
    let fit = |v: &BigUint, len: usize| -> Vec<u8> {
        // big-endian, right-aligned, truncated on the left if too long
        let b = v.to_bytes_be();
        let mut o = vec![0u8; len];
        let n = b.len().min(len);
        o[len - n..].copy_from_slice(&b[b.len() - n..]);
        o
    };
    match s.weighted(&[2, 2, 4, 4, 3, 6, 4, 4]) {
        7 => {
            // wide limb patterns: the 512-bit analogue of the stored-limb classes - every 64-bit word of the input from
            // {0, 1, 2^63, 2^64-1, uniform}, or a single power of two 2^i (+-1) with i up to 511
            if s.bool() {
                let mut v = BigUint::zero();
                for _ in 0..8 {
                    let w = match s.choose(6) {
                        0 | 1 => 0u64,
                        2 => 1,
                        3 => 1u64 << 63,
                        4 => u64::MAX,
                        _ => s.u64(),
                    };
                    v = (v << 64) + BigUint::from(w);
                }
                (fit(&v, len), "wide-limb-pattern")
            } else {
                let i = s.choose16(512) as u32;
                let b = BigUint::one() << i;
                let v = match s.choose(3) {
                    0 => b,
                    1 => b + 1u32,
                    _ => b - 1u32,
                };
                (fit(&v, len), "wide-limb-pattern")
            }
        }
        6 => {
            // a near-modulus value in the HIGH part followed by an arbitrary tail: (x << 8t) + tail, x in {m-1, m, m+1, ...}
            // (long division and Horner-style reducers pass through every prefix of the input)
            let rm1 = zp::r() - 1u32;
            let tbl = [p - 1u32, p.clone(), p + 1u32, rm1.clone(), &rm1 + 1u32, &rm1 - 1u32, p * 2u32, &zp::c().two256 - 1u32];
            let x = tbl[s.choose(8)].clone();
            let t = if s.bool() { 32 } else { s.choose(33) };
            let tail = match s.choose(3) {
                0 => BigUint::zero(),
                1 => (BigUint::one() << (8 * t)) - 1u32,
                _ => BigUint::from_bytes_be(&s.bytes(t)),
            };
            (fit(&((x << (8 * t)) + tail), len), "high-part-near-p")
        }
        0 => (vec![0u8; len], "all-zero"),
        1 => (vec![0xFFu8; len], "all-ff"),
        2 => {
            let tbl = [p - 1u32, p.clone(), p + 1u32, &zp::c().two256 - 1u32, zp::c().two256.clone(), p * 2u32, p * 2u32 - 1u32, &zp::c().two256 + p];
            (fit(&tbl[s.choose(8)], len), "near-p")
        }
        3 => {
            // multiples of p and of r-1 near 2^512 (or near 2^(8 len)), +-1
            let top = BigUint::one() << (8 * len.min(64));
            let base = if s.bool() { p.clone() } else { zp::r() - 1u32 };
            let k = &top / &base;
            let k = if k.is_zero() { k } else { &k - BigUint::from(s.choose(3) as u32).min(k.clone()) };
            let v = &k * &base;
            let v = match s.choose(3) {
                0 => v,
                1 => v + 1u32,
                _ => {
                    if v.is_zero() {
                        v
                    } else {
                        v - 1u32
                    }
                }
            };
            (fit(&v, len), "multiple")
        }
        4 => {
            let f = felt(s, m).v;
            (fit(&f, len), "felt")
        }
        _ => (s.bytes(len), "uniform"),
    }
}

const FOREIGN: [&str; 18] = ["+", "-", " ", "a", ".", "\u{0663}", "\u{FF11}", "\0", "\u{1F600}", "x", "e", "_", "/", ":", ";", "@", "\u{00B2}", "\u{0967}"];

/// one character that is not an ASCII digit: the fixed table (signs, neighbours of '0'..'9' in ASCII, non-ASCII digits)
/// or any other ASCII / Unicode scalar derived from the source
fn foreign_char(s: &mut Src) -> String {
    match s.choose(4) {
        0 | 1 => FOREIGN[s.choose(FOREIGN.len())].to_string(),
        2 => {
            // any ASCII byte that is not a digit
            let mut b = s.u8() & 0x7F;
            if b.is_ascii_digit() {
                b = b'0' + 10 + (b - b'0'); // ':' .. 'C'
            }
            (b as char).to_string()
        }
        _ => {
            let c = char::from_u32(0x80 + (s.u32() % 0x2_0000)).unwrap_or('\u{FFFD}');
            if c.is_ascii_digit() {
                "~".to_string()
            } else {
                c.to_string()
            }
        }
    }
}

pub fn text(s: &mut Src) -> (String, bool, &'static str) {
    // returns (string, all-ascii-digits-and-nonempty, class)
    let n = match s.choose(4) {
        0 => s.choose(4),
        1 => s.choose(40),
        2 => 70 + s.choose(20), // around the 77/78-digit size of p
        _ => s.choose(161),
    };
    if s.choose(5) == 0 {
        // a digit string whose PREFIX is a near-multiple of a modulus, followed by further digits
        let m = if s.bool() { zp::q() } else { zp::r() };
        let k = match s.choose(3) {
            0 => BigUint::from(1 + s.choose(9) as u32),
            1 => BigUint::from(s.u64()),
            _ => BigUint::from_bytes_be(&s.bytes(16)),
        };
        let v = k * m + BigUint::from(s.choose(10) as u32);
        let mut t = v.to_str_radix(10);
        let room = 160usize.saturating_sub(t.len());
        let tail = s.choose(room + 1);
        for _ in 0..tail {
            t.push((b'0' + (s.u8() % 10)) as char);
        }
        return (t, true, "digits");
    }
    let mut t = String::new();
    let lead_zeros = if s.choose(4) == 0 { s.choose(n + 1) } else { 0 };
    for i in 0..n {
        if i < lead_zeros {
            t.push('0');
        } else {
            t.push((b'0' + (s.u8() % 10)) as char);
        }
    }
    if s.choose(3) == 0 {
        // inject one foreign character at a chosen position
        let f = foreign_char(s);
        let chars: Vec<char> = t.chars().collect();
        let pos = s.choose(chars.len() + 1).min(chars.len());
        let mut u: String = chars[..pos].iter().collect();
        u.push_str(&f);
        u.extend(chars[pos..].iter());
        return (u, false, "foreign-char");
    }
    let ok = !t.is_empty();
    (t, ok, if ok { "digits" } else { "empty" })
}

fn dec_value(t: &str) -> BigUint {
    BigUint::parse_bytes(t.as_bytes(), 10).expect("digit string")
}

pub fn expected_set_bit(v: &BigUint, i: usize, to: bool, r: &BigUint) -> Vec<BigUint> {
    // accepted outcomes (canonical integers)
    if i < 256 {
        let bit = BigUint::one() << i;
        let has = v.bit(i as u64);
        let v2 = if to && !has {
            v + &bit
        } else if !to && has {
            v - &bit
        } else {
            v.clone()
        };
        vec![v2 % r]
    } else {
        // the 256-bit canonical value has no such bit: "unchanged", or "(v + 2^i [to]) mod r"
        let mut o = vec![v.clone()];
        if to {
            o.push((v + (BigUint::one() << i)) % r);
        }
        o
    }
}

/// input length 0..=70 from one byte: the 71 byte values ceil(l*256/71) keep meaning "length l" (the enumerated
/// sub-spaces use them); every other byte value maps to a boundary length, mostly the full width 64
pub fn len_from_byte(b: u8) -> usize {
    let l = (b as usize * 71) >> 8;
    if ((l * 256).div_ceil(71)) as u8 == b {
        return l;
    }
    [64usize, 64, 64, 32, 64, 33, 63, 65, 64, 1, 64, 31][b as usize % 12]
}
pub fn conv_len(s: &mut Src) -> usize {
    len_from_byte(s.u8())
}

fn lenclass(info: &mut Info, len: usize) {
    info.class(format!("len:{}", len));
}

pub fn check(g: &[u8], ctx: &Ctx) -> Result<Info, Failure> {
    let mut s = Src::new(g);
    let mut info = Info::default();
    let mut key = Key::new();
    let q = zp::q();
    let r = zp::r();
    let op = s.weighted(&[8, 3, 4, 5, 2, 5]);
    match op {
        0 => {
            // from_slice / TryFrom, Fr and Fq
            info.class("op:from_slice");
            let use_q = s.bool();
            let m = if use_q { Md::Q } else { Md::R };
            let len = conv_len(&mut s);
            let (b, bc) = conv_bytes(&mut s, len, m);
            lenclass(&mut info, len);
            info.class(format!("bytes:{}", bc));
            let n = zp::from_be(&b);
            let p = m.p();
            if &n >= p {
                info.class("bytes:reduced");
            }
            info.nontrivial = len != 32 || &n >= p;
            key.s("from_slice").s(m.name()).b(&b);
            if ctx.want_desc {
                info.desc = crate::runner::note(json!({"op": "from_slice", "field": m.name(), "len": len, "bytes": hex(&b), "class": bc}));
            }
            let want = if (1..=64).contains(&len) { Some(&n % p) } else { None };
            let (got, got_try, back) = if use_q {
                let g1 = Fq::from_slice(&b);
                let g2 = Fq::try_from(&b[..]).ok();
                let back = g1.map(|x| Fq::from_slice(&x.to_slice()) == Some(x));
                (g1.map(|x| x.to_slice()), g2.map(|x| x.to_slice()), back)
            } else {
                let g1 = Fr::from_slice(&b);
                let g2 = Fr::try_from(&b[..]).ok();
                let back = g1.map(|x| Fr::from_slice(&x.to_slice()) == Some(x));
                (g1.map(|x| x.to_slice()), g2.map(|x| x.to_slice()), back)
            };
            ensure!(got == got_try, "from_slice|tryfrom-differs", "{} from_slice and TryFrom disagree on {} bytes {}", m.name(), len, hex(&b));
            match (&got, &want) {
                (None, None) => {}
                (Some(gb), Some(w)) => {
                    let gv = zp::from_be(gb);
                    ensure!(&gv == w, "from_slice|value", "{}::from_slice({}) [{} bytes] = {:x}, want n mod p = {:x}", m.name(), hex(&b), len, gv, w);
                    ensure!(back == Some(true), "from_slice|to_slice-roundtrip", "{}: from_slice(to_slice(x)) != x for x from {}", m.name(), hex(&b));
                }
                (Some(_), None) => fail!("from_slice|accepted-bad-length", "{}::from_slice accepted {} bytes", m.name(), len),
                (None, Some(_)) => fail!("from_slice|rejected-good-length", "{}::from_slice rejected {} bytes: {}", m.name(), len, hex(&b)),
            }
        }
        1 => {
            info.class("op:interpret");
            let use_q = s.bool();
            let m = if use_q { Md::Q } else { Md::R };
            let (b, bc) = conv_bytes(&mut s, 64, m);
            let n = zp::from_be(&b);
            let p = m.p();
            info.class(format!("bytes:{}", bc));
            if &n >= p {
                info.class("bytes:reduced");
            }
            info.nontrivial = true;
            key.s("interpret").s(m.name()).b(&b);
            if ctx.want_desc {
                info.desc = crate::runner::note(json!({"op": "interpret", "field": m.name(), "bytes": hex(&b), "class": bc}));
            }
            let mut a = [0u8; 64];
            a.copy_from_slice(&b);
            let gv = if use_q { zp::from_be(&Fq::interpret(&a).to_slice()) } else { zp::from_be(&Fr::interpret(&a).to_slice()) };
            let w = &n % p;
            ensure!(gv == w, "interpret|value", "{}::interpret({}) = {:x}, want {:x}", m.name(), hex(&b), gv, w);
        }
        2 => {
            info.class("op:from_hash");
            let len = conv_len(&mut s);
            let (b, bc) = conv_bytes(&mut s, len, Md::R);
            lenclass(&mut info, len);
            info.class(format!("bytes:{}", bc));
            let n = zp::from_be(&b);
            let rm1 = r - 1u32;
            if n >= rm1 {
                info.class("hash:reduced");
            }
            info.nontrivial = true;
            key.s("from_hash").b(&b);
            if ctx.want_desc {
                info.desc = crate::runner::note(json!({"op": "from_hash", "len": len, "bytes": hex(&b), "class": bc}));
            }
            let got = Fr::from_hash(&b).map(|x| zp::from_be(&x.to_slice()));
            let want = if len <= 64 { Some((&n % &rm1) + 1u32) } else { None };
            match (&got, &want) {
                (None, None) => {}
                (Some(gv), Some(w)) => {
                    ensure!(gv == w, "from_hash|value", "from_hash({}) = {:x}, want (n mod (r-1))+1 = {:x}", hex(&b), gv, w);
                    ensure!(!gv.is_zero() && gv < r, "from_hash|range", "from_hash({}) = {:x} outside [1, r-1]", hex(&b), gv);
                }
                (Some(_), None) => fail!("from_hash|accepted-too-long", "from_hash accepted {} bytes", len),
                (None, Some(_)) => fail!("from_hash|rejected", "from_hash rejected {} bytes {}", len, hex(&b)),
            }
        }
        3 => {
            info.class("op:from_str");
            let use_q = s.bool();
            let m = if use_q { Md::Q } else { Md::R };
            let (t, ok, tc) = text(&mut s);
            info.class(format!("str:{}", tc));
            key.s("from_str").s(m.name()).s(&t);
            if ctx.want_desc {
                info.desc = crate::runner::note(json!({"op": "from_str", "field": m.name(), "text": t, "class": tc}));
            }
            if tc == "empty" {
                // a digit string with no digits: excluded from the assertion (only: no panic)
                info.class("str:excluded-empty");
                let _ = if use_q { Fq::from_str(&t).is_ok() } else { Fr::from_str(&t).is_ok() };
            } else {
                let got = if use_q { Fq::from_str(&t).ok().map(|x| zp::from_be(&x.to_slice())) } else { Fr::from_str(&t).ok().map(|x| zp::from_be(&x.to_slice())) };
                info.nontrivial = true;
                if ok {
                    info.class("str:accepted");
                    let w = dec_value(&t) % m.p();
                    match got {
                        Some(gv) => ensure!(gv == w, "from_str|value", "{}::from_str({:?}) = {:x}, want {:x}", m.name(), t, gv, w),
                        None => fail!("from_str|rejected-digits", "{}::from_str({:?}) is an error", m.name(), t),
                    }
                } else {
                    info.class("str:rejected");
                    ensure!(got.is_none(), "from_str|accepted-nondigit", "{}::from_str({:?}) = Ok({:x})", m.name(), t, got.unwrap());
                }
            }
        }
        4 => {
            info.class("op:to_big_endian");
            let v = felt(&mut s, Md::Q).v;
            let len = conv_len(&mut s);
            lenclass(&mut info, len);
            let fill = s.u8();
            info.nontrivial = true;
            key.s("to_big_endian").big(&v).n(len as u64);
            if ctx.want_desc {
                info.desc = crate::runner::note(json!({"op": "to_big_endian", "value": zp::hexs(&v), "buffer_len": len}));
            }
            let x = fq_of_big(&v);
            let mut buf = vec![fill; len];
            let res = x.to_big_endian(&mut buf[..]);
            if len == 32 {
                ensure!(res.is_ok(), "to_big_endian|err-on-32", "to_big_endian into 32 bytes failed");
                ensure!(buf[..] == zp::be32(&v)[..], "to_big_endian|value", "to_big_endian({:x}) = {}", v, hex(&buf));
            } else {
                info.class("buf:wrong-size");
                ensure!(res.is_err(), "to_big_endian|ok-on-wrong-size", "to_big_endian accepted a {}-byte buffer", len);
            }
            ensure!(x.to_slice() == zp::be32(&v), "to_slice|value", "Fq to_slice({:x}) = {}", v, hex(&x.to_slice()));
            let arr: [u8; 32] = x.into();
            ensure!(arr == zp::be32(&v), "to_slice|into-array", "Fq into [u8;32] differs");
            // the same observation for Fr
            let vr = &v % r;
            let y = fr_of_big(&vr);
            ensure!(y.to_slice() == zp::be32(&vr), "to_slice|value", "Fr to_slice({:x}) = {}", vr, hex(&y.to_slice()));
            let arr: [u8; 32] = y.into();
            let arr2: [u8; 32] = (&y).into();
            ensure!(arr == zp::be32(&vr) && arr2 == arr, "to_slice|into-array", "Fr into [u8;32] differs");
            let _ = q;
        }
        _ => {
            info.class("op:set_bit");
            let v = felt(&mut s, Md::R).v;
            let i = match s.choose(4) {
                0 => 240 + s.choose(61), // around the top limb and beyond
                _ => s.choose16(301),
            };
            let to = s.bool();
            key.s("set_bit").big(&v).n(i as u64).n(to as u64);
            if ctx.want_desc {
                info.desc = crate::runner::note(json!({"op": "set_bit", "value": zp::hexs(&v), "bit": i, "to": to}));
            }
            let accepted = expected_set_bit(&v, i, to, r);
            if i >= 256 {
                info.class("set_bit:index>=256");
            } else {
                let bit = BigUint::one() << i;
                let raw = if to { &v | &bit } else { &v - (&v & &bit) };
                if &raw >= r {
                    info.class("set_bit:overflow-r");
                }
                if raw != v {
                    info.class("set_bit:changes");
                }
            }
            info.nontrivial = accepted[0] != v || i >= 256;
            let mut x = fr_of_big(&v);
            x.set_bit(i, to);
            let gv = zp::from_be(&x.to_slice());
            ensure!(
                accepted.contains(&gv),
                "set_bit|value",
                "Fr({:x}).set_bit({}, {}) = {:x}, want {:x}",
                v,
                i,
                to,
                gv,
                accepted[0]
            );
            ensure!(&gv < r, "set_bit|noncanonical", "set_bit result {:x} >= r", gv);
            ensure!(Fr::from_slice(&x.to_slice()) == Some(x), "set_bit|second-representation", "after set_bit({},{}) on {:x}: from_slice(to_slice(x)) != x", i, to, v);
        }
    }
    info.key = key.done();
    Ok(info)
}

/// enumerated sub-spaces, expressed as genomes of the same decoder
fn enumerate(_t: crate::runner::Tier) -> Vec<Vec<u8>> {
    let mut out = vec![];
    let sel = |i: usize, w: &[u32]| -> [u8; 2] {
        // smallest u16 that `weighted` maps to index i
        let total: u32 = w.iter().sum();
        let lo: u32 = w[..i].iter().sum();
        let x = ((lo as u64) << 16).div_ceil(total as u64) as u16;
        x.to_be_bytes()
    };
    let ch = |i: usize, n: usize| -> u8 { ((i * 256).div_ceil(n)) as u8 };
    let w_op = [8u32, 3, 4, 5, 2, 5];
    let w_b = [2u32, 2, 4, 4, 3, 6, 4, 4];
    // from_slice: field x len x {zero, ff, uniform}
    for field in 0..2u8 {
        for len in 0..=70usize {
            for (kind, fillb) in [(0usize, 0u8), (1, 0), (5, 0x5a), (5, 0xc3)] {
                let mut g = sel(0, &w_op).to_vec();
                g.push(field);
                g.push(ch(len, 71));
                g.extend_from_slice(&sel(kind, &w_b));
                for j in 0..len {
                    g.push(fillb.wrapping_mul(j as u8 + 1).wrapping_add(j as u8));
                }
                out.push(g);
            }
        }
    }
    // from_hash: len x kinds
    for len in 0..=70usize {
        for (kind, fillb) in [(0usize, 0u8), (1, 0), (5, 0x77)] {
            let mut g = sel(2, &w_op).to_vec();
            g.push(ch(len, 71));
            g.extend_from_slice(&sel(kind, &w_b));
            for j in 0..len {
                g.push(fillb.wrapping_add((j * 37) as u8));
            }
            out.push(g);
        }
    }
    // to_big_endian: every buffer length, value uniform
    for len in 0..=70usize {
        let mut g = sel(4, &w_op).to_vec();
        // felt(): weighted [3,2,4,4,2,5] -> uniform (index 5), then 32 bytes
        g.extend_from_slice(&sel(5, &crate::gen::FELT_W));
        for j in 0..32 {
            g.push((j * 7 + 1) as u8);
        }
        g.push(ch(len, 71));
        g.push(0xAA);
        out.push(g);
    }
    // set_bit: 4 values x every index 0..=300 x both
    for val in 0..4usize {
        for i in 0..=300usize {
            for to in 0..2u8 {
                let mut g = sel(5, &w_op).to_vec();
                match val {
                    0 => {
                        // canonical boundary r-1 : felt index 0, table entry 4
                        g.extend_from_slice(&sel(0, &crate::gen::FELT_W));
                        g.push(ch(4, 12));
                    }
                    1 => {
                        g.extend_from_slice(&sel(0, &crate::gen::FELT_W));
                        g.push(ch(0, 12)); // zero
                    }
                    _ => {
                        g.extend_from_slice(&sel(5, &crate::gen::FELT_W));
                        for j in 0..32 {
                            g.push(((j * 11 + val * 97) as u8) ^ 0x5c);
                        }
                    }
                }
                g.push(ch(1, 4)); // index source: choose16(301)
                let x = ((i as u32) << 16).div_ceil(301) as u16;
                g.extend_from_slice(&x.to_be_bytes());
                g.push(to);
                out.push(g);
            }
        }
    }
    out
}
