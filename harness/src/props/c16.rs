//! C16 — any history of group operations behaves like arithmetic in Z_r.
//! Model = the discrete logarithm of every register; all observations are predicted from it.
use crate::gen::{fr_of, scalar};
use crate::grp::{Grp, GA, GB};
use crate::props::c01::{e, gt_hex, ENTRIES};
use crate::runner::{Ctx, Failure, Info, Key, PropDef, Tier};
use crate::src::{hex, Src};
use crate::zp;
use crate::{ensure, fail};
use num_bigint::BigUint;
use num_traits::{One, Zero};
use serde_json::json;
use sm9_core::{pairing, Fr, Group, Gt, G1, G2};
use std::sync::OnceLock;

pub fn def() -> PropDef {
    PropDef {
        id: "C16",
        check,
        genome_len: 40 * OPW + 8,
        quick_cases: 6_000,
        thorough_cases: 300_000,
        rule: "case = program of 1..40 steps over registers (3 G1, 3 G2, 3 Fr) starting from generators and identity; steps: add, sub, neg, scalar multiplication by an Fr register (both operator forms) or by a constant from {0,1,2,r-1}, normalize, affine round-trip, encode/decode round-trip in each of the three formats, copy, Fr load/add/sub/mul; after every step the written register is compared with a freshly computed one()*dlog (is_zero, ==, == against every other register, and the three encodings for non-identity values); at the end pairings of selected register pairs through all three entry points must equal e(P1,P2)^(ab). Exhaustive part: every program of depth <= 2 over both groups (quick) and additionally every depth-3 program per group (thorough) over 2 registers and the scalar alphabet {0,1,2,r-1}. non-trivial = an identity produced by arithmetic or a value in mixed representation is consumed by a later step or observation; distinct by program",
        required: crate::runner::req(&[
            "consumed:arith-identity", "consumed:decoded-in-arith", "op:add", "op:sub", "op:neg", "op:mul", "op:rmul", "op:mulconst", "op:normalize", "op:affine", "op:codec-raw", "op:codec-uncompressed",
            "op:codec-compressed", "op:copy", "op:mul-lambda", "op:fr", "pairing:with-identity", "pairing:nonidentity",
        ]),
        enumerate: Some(enumerate),
        enumerate_note: "all programs of depth <= 2 over {G1,G2} x 2 registers x 48 steps per group (96 + 96^2 programs) [quick+thorough]; all depth-3 programs within one group (2 x 48^3) [thorough]; each followed by the closing pairing observations — these sub-spaces are exhaustive",
        also_dbg: false,
        assumptions: super::TRUSTED,
        max_shrink_iters: 600,
    }
}

/// bytes per encoded op: group, opcode, d, a, b, c, + 1 spare
pub const OPW: usize = 7;
const NOPS: usize = 16;

fn base_gt() -> &'static Gt {
    static B: OnceLock<Gt> = OnceLock::new();
    B.get_or_init(|| pairing(G1::one(), G2::one()))
}

struct Regs<G: Grp> {
    v: [G::L; 3],
    k: [BigUint; 3],
    /// value was produced by arithmetic as an identity (dlog 0 from a non-trivial computation)
    arith_identity: [bool; 3],
    /// value came out of a decoder / normalisation (z = 1) and has not been through arithmetic since
    decoded: [bool; 3],
}

fn audit<G: Grp>(rg: &Regs<G>, d: usize, step: usize, what: &str) -> Result<(), Failure> {
    let x = rg.v[d];
    let k = &rg.k[d];
    ensure!(x.is_zero() == k.is_zero(), &format!("{}|is_zero", G::NAME), "step {} [{}]: is_zero = {} but the model dlog is {:x} (value {})", step, what, x.is_zero(), k, G::show(&x));
    let fresh = G::L::one() * fr_of(k);
    ensure!(x == fresh && fresh == x, &format!("{}|eq-fresh", G::NAME), "step {} [{}]: register != freshly computed {:x}*generator (value {})", step, what, k, G::show(&x));
    for j in 0..3 {
        let eq = rg.v[j] == x;
        ensure!(eq == (rg.k[j] == *k), &format!("{}|eq-registers", G::NAME), "step {} [{}]: register {} == register {} is {} but dlogs are {:x} / {:x}", step, what, j, d, eq, rg.k[j], k);
    }
    if !k.is_zero() {
        let encs: [(&str, Vec<u8>, Vec<u8>); 3] = [
            ("to_slice", G::to_slice(x), G::to_slice(fresh)),
            ("to_uncompressed", G::to_uncompressed(x), G::to_uncompressed(fresh)),
            ("to_compressed", G::to_compressed(x), G::to_compressed(fresh)),
        ];
        for (n, a, b) in encs.iter() {
            ensure!(a == b, &format!("{}|{}-differs", G::NAME, n), "step {} [{}]: {} = {} but the fresh value of {:x}*generator encodes as {}", step, what, n, hex(a), k, hex(b));
        }
    }
    Ok(())
}

#[allow(clippy::too_many_arguments)]
fn step_group<G: Grp>(rg: &mut Regs<G>, fr: &[Fr; 3], mk: &[BigUint; 3], op: usize, d: usize, a: usize, b: usize, c: usize, info: &mut Info, step: usize) -> Result<String, Failure> {
    let r = zp::r();
    let consts = [BigUint::zero(), BigUint::one(), BigUint::from(2u32), r - 1u32];
    let mark_consumed = |rg: &Regs<G>, idx: &[usize], info: &mut Info, arith: bool| {
        for &i in idx {
            if rg.arith_identity[i] {
                info.class("consumed:arith-identity");
            }
            if arith && rg.decoded[i] {
                info.class("consumed:decoded-in-arith");
            }
        }
    };
    let what;
    let (nv, nk, decoded): (G::L, BigUint, bool) = match op {
        0 => {
            info.class("op:add");
            mark_consumed(rg, &[a, b], info, true);
            // one of the publicly reachable operator forms of the addition (plain `+`, or a form of the exposed inner type)
            let forms: Vec<(&'static str, G::L)> = G::extra_forms(rg.v[a], rg.v[b]).into_iter().filter(|f| f.0.starts_with("add:")).collect();
            let (fname, val) = if c >= 2 && !forms.is_empty() { forms[(c + d + a) % forms.len()] } else { ("add:a + b", rg.v[a] + rg.v[b]) };
            what = format!("{}[{}] = {}[{}] + {}[{}]  ({})", G::NAME, d, G::NAME, a, G::NAME, b, &fname[4..]);
            (val, (&rg.k[a] + &rg.k[b]) % r, false)
        }
        1 => {
            info.class("op:sub");
            mark_consumed(rg, &[a, b], info, true);
            what = format!("{}[{}] = {}[{}] - {}[{}]", G::NAME, d, G::NAME, a, G::NAME, b);
            (rg.v[a] - rg.v[b], zp::sub_mod(&rg.k[a], &rg.k[b], r), false)
        }
        2 => {
            info.class("op:neg");
            mark_consumed(rg, &[a], info, true);
            what = format!("{}[{}] = -{}[{}]", G::NAME, d, G::NAME, a);
            (-rg.v[a], zp::neg_mod(&rg.k[a], r), false)
        }
        3 => {
            info.class("op:mul");
            mark_consumed(rg, &[a], info, true);
            what = format!("{}[{}] = {}[{}] * fr[{}] ({:x})", G::NAME, d, G::NAME, a, c % 3, mk[c % 3]);
            (rg.v[a] * fr[c % 3], (&rg.k[a] * &mk[c % 3]) % r, false)
        }
        4 => {
            info.class("op:rmul");
            mark_consumed(rg, &[a], info, true);
            what = format!("{}[{}] = fr[{}] ({:x}) * {}[{}]", G::NAME, d, c % 3, mk[c % 3], G::NAME, a);
            (G::rmul(fr[c % 3], rg.v[a]), (&rg.k[a] * &mk[c % 3]) % r, false)
        }
        5 | 6 | 7 | 8 => {
            info.class("op:mulconst");
            mark_consumed(rg, &[a], info, true);
            let cst = &consts[op - 5];
            what = format!("{}[{}] = {}[{}] * {:x}", G::NAME, d, G::NAME, a, cst);
            (rg.v[a] * fr_of(cst), (&rg.k[a] * cst) % r, false)
        }
        9 => {
            info.class("op:normalize");
            mark_consumed(rg, &[a], info, false);
            what = format!("{}[{}] = normalize({}[{}])", G::NAME, d, G::NAME, a);
            let mut x = rg.v[a];
            x.normalize();
            (x, rg.k[a].clone(), true)
        }
        10 => {
            info.class("op:affine");
            mark_consumed(rg, &[a], info, false);
            what = format!("{}[{}] = from(affine({}[{}]))", G::NAME, d, G::NAME, a);
            match G::affine_roundtrip(rg.v[a]) {
                Some(x) => (x, rg.k[a].clone(), true),
                None => {
                    ensure!(rg.k[a].is_zero(), &format!("{}|affine-none", G::NAME), "step {} [{}]: affine conversion failed for a non-identity value", step, what);
                    (rg.v[a], rg.k[a].clone(), rg.decoded[a])
                }
            }
        }
        11 | 12 | 13 => {
            let names = ["raw", "uncompressed", "compressed"];
            let f = op - 11;
            info.class(format!("op:codec-{}", names[f]));
            mark_consumed(rg, &[a], info, false);
            what = format!("{}[{}] = decode_{}(encode_{}({}[{}]))", G::NAME, d, names[f], names[f], G::NAME, a);
            if rg.k[a].is_zero() {
                // the encoders are documented as partial on the identity (they unwrap): not called
                info.class("codec:skipped-identity");
                (rg.v[a], rg.k[a].clone(), rg.decoded[a])
            } else {
                let bytes = match f {
                    0 => G::to_slice(rg.v[a]),
                    1 => G::to_uncompressed(rg.v[a]),
                    _ => G::to_compressed(rg.v[a]),
                };
                let dec = match f {
                    0 => G::from_slice(&bytes),
                    1 => G::from_uncompressed(&bytes),
                    _ => G::from_compressed(&bytes),
                };
                match dec {
                    Ok(x) => (x, rg.k[a].clone(), true),
                    Err(e) => fail!(&format!("{}|codec-rejected", G::NAME), "step {} [{}]: decoder rejected the library's own encoding {}: {:?}", step, what, hex(&bytes), e),
                }
            }
        }
        15 => {
            // multiplication by an eigenvalue of the order-3 endomorphism (random programs only): creates registers whose
            // points share y with, or have the opposite y of, another register while differing in x
            info.class("op:mul-lambda");
            mark_consumed(rg, &[a], info, true);
            let l = crate::gen::lambda_r();
            let l = if c % 2 == 0 { l.clone() } else { (l * l) % r };
            let l = if c >= 2 { (r - &l) % r } else { l };
            what = format!("{}[{}] = {}[{}] * {:x} (endomorphism eigenvalue)", G::NAME, d, G::NAME, a, l);
            (rg.v[a] * fr_of(&l), (&rg.k[a] * &l) % r, false)
        }
        _ => {
            info.class("op:copy");
            what = format!("{}[{}] = {}[{}]", G::NAME, d, G::NAME, a);
            (rg.v[a], rg.k[a].clone(), rg.decoded[a])
        }
    };
    let arith = op <= 8 || op == 15;
    let produced_identity = arith && nk.is_zero() && !(op >= 5 && false);
    rg.v[d] = nv;
    rg.arith_identity[d] = if arith { produced_identity } else if op == 14 { rg.arith_identity[a] } else { rg.arith_identity[a] && nk.is_zero() };
    rg.k[d] = nk;
    rg.decoded[d] = decoded;
    audit::<G>(rg, d, step, &what)?;
    Ok(what)
}

pub fn check(g: &[u8], ctx: &Ctx) -> Result<Info, Failure> {
    let mut s = Src::new(g);
    let mut info = Info::default();
    let mut key = Key::new();
    let r = zp::r();
    let z = BigUint::zero;
    let mut r1: Regs<GA> = Regs { v: [G1::one(), G1::zero(), G1::one()], k: [BigUint::one(), z(), BigUint::one()], arith_identity: [false; 3], decoded: [false; 3] };
    let mut r2: Regs<GB> = Regs { v: [G2::one(), G2::zero(), G2::one()], k: [BigUint::one(), z(), BigUint::one()], arith_identity: [false; 3], decoded: [false; 3] };
    let mut fr: [Fr; 3] = [Fr::one(), Fr::zero(), fr_of(&BigUint::from(2u32))];
    let mut mk: [BigUint; 3] = [BigUint::one(), z(), BigUint::from(2u32)];
    // header: number of steps, closing observation selectors
    let nsteps = s.choose(41);
    let obs = [(s.choose(3), s.choose(3)), (s.choose(3), s.choose(3))];
    let mut log: Vec<String> = vec![];
    for step in 0..nsteps {
        let grp = s.u8();
        let op = s.choose(NOPS);
        let d = s.choose(3);
        let a = s.choose(3);
        let b = s.choose(3);
        let c = s.choose(4);
        let _spare = s.u8();
        let what = if grp % 8 == 7 {
            // Fr register operation
            info.class("op:fr");
            let consts = [BigUint::zero(), BigUint::one(), BigUint::from(2u32), r - 1u32];
            let (v, m, w) = match op % 5 {
                0 => (fr_of(&consts[c]), consts[c].clone(), format!("fr[{}] = {:x}", d, consts[c])),
                1 => {
                    // a scalar from the boundary classes, derived from the spare bytes of this op's neighbourhood
                    let mut sub = Src::new(&g[s.consumed().min(g.len())..]);
                    let k = scalar(&mut sub).k;
                    (fr_of(&k), k.clone(), format!("fr[{}] = {:x}", d, k))
                }
                2 => (fr[a] + fr[b], (&mk[a] + &mk[b]) % r, format!("fr[{}] = fr[{}] + fr[{}]", d, a, b)),
                3 => (fr[a] - fr[b], zp::sub_mod(&mk[a], &mk[b], r), format!("fr[{}] = fr[{}] - fr[{}]", d, a, b)),
                _ => (fr[a] * fr[b], (&mk[a] * &mk[b]) % r, format!("fr[{}] = fr[{}] * fr[{}]", d, a, b)),
            };
            fr[d] = v;
            mk[d] = m;
            ensure!(zp::from_be(&fr[d].to_slice()) == mk[d], "fr|model", "step {} [{}]: Fr register = {} but model {:x}", step, w, hex(&fr[d].to_slice()), mk[d]);
            w
        } else if grp % 2 == 0 {
            step_group::<GA>(&mut r1, &fr, &mk, op, d, a, b, c, &mut info, step)?
        } else {
            step_group::<GB>(&mut r2, &fr, &mk, op, d, a, b, c, &mut info, step)?
        };
        key.s(&what);
        if ctx.want_desc {
            log.push(what);
            crate::runner::note(json!({"steps": log}));
        }
    }
    // closing observations: pairings of selected register pairs through all three entry points
    let mut observed = vec![];
    for (i, j) in obs.iter() {
        let (p, q) = (r1.v[*i], r2.v[*j]);
        let ab = (&r1.k[*i] * &r2.k[*j]) % r;
        let want = if ab.is_zero() { Gt::one() } else { base_gt().pow(fr_of(&ab)) };
        if ab.is_zero() {
            info.class("pairing:with-identity");
        } else {
            info.class("pairing:nonidentity");
        }
        if r1.arith_identity[*i] || r2.arith_identity[*j] {
            info.class("consumed:arith-identity");
            info.class("consumed:arith-identity-by-pairing");
        }
        for en in 0..3 {
            let got = e(en, p, q);
            let ic = if r1.k[*i].is_zero() && r2.k[*j].is_zero() { "both" } else if r1.k[*i].is_zero() { "g1" } else if r2.k[*j].is_zero() { "g2" } else { "none" };
            ensure!(
                got == want && got.to_slice()[..] == want.to_slice()[..],
                &format!("{}|history-pairing|identity-{}", ENTRIES[en], ic),
                "after {} steps: {}(G1[{}], G2[{}]) = {} but dlogs {:x}, {:x} predict {} (G1 value {})",
                nsteps, ENTRIES[en], i, j, gt_hex(&got), r1.k[*i], r2.k[*j], gt_hex(&want), GA::show(&p)
            );
        }
        observed.push(format!("e(G1[{}],G2[{}])", i, j));
    }
    key.n(obs[0].0 as u64).n(obs[0].1 as u64).n(obs[1].0 as u64).n(obs[1].1 as u64);
    info.nontrivial = info.classes.iter().any(|c| c.starts_with("consumed:"));
    info.key = key.done();
    if ctx.want_desc {
        info.desc = crate::runner::note(json!({"steps": log, "closing": observed}));
    }
    Ok(info)
}

// ------------------------------------------------------------------------------------------ enumeration
fn ch(i: usize, n: usize) -> u8 {
    ((i * 256).div_ceil(n)) as u8
}

/// the step alphabet of the exhaustive part for one group: (opcode, d, a, b) over registers {0,1}
fn alphabet() -> Vec<(usize, usize, usize, usize)> {
    let mut v = vec![];
    for d in 0..2 {
        for a in 0..2 {
            for b in 0..2 {
                v.push((0, d, a, b)); // add
                v.push((1, d, a, b)); // sub
            }
            v.push((2, d, a, 0)); // neg
            for c in 5..9 {
                v.push((c, d, a, 0)); // mul by constant 0,1,2,r-1
            }
            if d != a {
                v.push((14, d, a, 0)); // copy
            }
        }
        v.push((9, d, d, 0)); // normalize in place
        v.push((10, d, d, 0)); // affine round trip
        v.push((11, d, d, 0));
        v.push((12, d, d, 0));
        v.push((13, d, d, 0));
    }
    v
}

fn encode(prog: &[(u8, (usize, usize, usize, usize))]) -> Vec<u8> {
    // header: nsteps, obs (0,0) and (1,1)
    let mut g = vec![ch(prog.len(), 41), ch(0, 3), ch(0, 3), ch(1, 3), ch(1, 3)];
    for (grp, (op, d, a, b)) in prog {
        g.extend_from_slice(&[*grp, ch(*op, NOPS), ch(*d, 3), ch(*a, 3), ch(*b, 3), 0, 0]);
    }
    g
}

fn enumerate(t: Tier) -> Vec<Vec<u8>> {
    let al = alphabet();
    let mut steps: Vec<(u8, (usize, usize, usize, usize))> = vec![];
    for grp in 0..2u8 {
        for s in al.iter() {
            steps.push((grp, *s));
        }
    }
    let mut out = vec![encode(&[])];
    for a in steps.iter() {
        out.push(encode(&[*a]));
    }
    for a in steps.iter() {
        for b in steps.iter() {
            out.push(encode(&[*a, *b]));
        }
    }
    if t == Tier::Thorough {
        for grp in 0..2u8 {
            for a in al.iter() {
                for b in al.iter() {
                    for c in al.iter() {
                        out.push(encode(&[(grp, *a), (grp, *b), (grp, *c)]));
                    }
                }
            }
        }
    }
    out
}
