//! C10 — point encodings round-trip and follow the SM9 byte formats.
//! Expected bytes are built from *reference* affine coordinates.
use crate::gen::scalar_nonzero;
use crate::grp::{desc_pt, point, Grp, Pt, GA, GB};
use crate::rf;
use crate::runner::{Ctx, Failure, Info, Key, PropDef};
use crate::src::{hex, Src};
use crate::zp;
use crate::{ensure, fail};
use serde_json::json;
use sm9_core::CurveError;

pub fn def() -> PropDef {
    let mut required = vec!["g1:point-from-chosen-x".to_string()];
    for g in ["G1", "G2"] {
        for rep in ["affine", "libjac", "rescaled"] {
            for par in ["even", "odd"] {
                required.push(format!("cell:{}|{}|{}", g, rep, par));
            }
        }
    }
    PropDef {
        id: "C10",
        check,
        genome_len: 400,
        quick_cases: 24_000,
        thorough_cases: 1_200_000,
        rule: "case = (group, k != 0, representation in {z=1, library Jacobian, rescaled}, sign): the point k*gen or its negative (so both parities of y occur for the same x); expected raw / 0x04 / 0x02-0x03 encodings are built from reference coordinates (big-endian, imaginary part first in G2, parity of y resp. of its real part); library encoders must match byte for byte for every representative, each decoder applied to them must return a point == P with identical re-encoding; non-trivial = representative not z=1, or the y parity is odd; distinct by (group, k, construction)",
        required,
        enumerate: None,
        enumerate_note: "",
        also_dbg: false,
        assumptions: super::TRUSTED,
        max_shrink_iters: 300,
    }
}

type Dec<G> = fn(&[u8]) -> Result<<G as Grp>::L, CurveError>;
type Enc<G> = fn(<G as Grp>::L) -> Vec<u8>;

fn run<G: Grp>(s: &mut Src, info: &mut Info, key: &mut Key, ctx: &Ctx, from_x: Option<Pt<G>>) -> Result<(), Failure> {
    let r = zp::r();
    let cat = s.choose(3);
    let k0 = scalar_nonzero(s).k;
    // use P and -P so both parities of y occur for the same x
    let k = if s.bool() { (r - &k0) % r } else { k0 };
    let p: Pt<G> = match from_x {
        Some(pt) => pt,
        None => point(s, &k, cat)?,
    };
    let a = p.aff.unwrap();
    let odd = G::b_is_odd(&a.1);
    info.class(format!("cell:{}|{}|{}", G::NAME, p.rep.name(), if odd { "odd" } else { "even" }));
    info.nontrivial = cat != 0 || odd;
    key.s(G::NAME).big(&p.k).s(&p.how).b(&G::enc_raw(&p.aff.unwrap()));
    if ctx.want_desc {
        info.desc = crate::runner::note(json!({"group": G::NAME, "P": desc_pt(&p), "y_parity": if odd {"odd"} else {"even"}}));
    }
    // every coordinate limb is below q by construction of the reference; assert it anyway (format requirement)
    let raw = G::enc_raw(&a);
    for limb in raw.chunks(32) {
        if &zp::from_be(limb) >= zp::q() {
            fail!("oracle|limb", "reference produced a limb >= q");
        }
    }
    let formats: [(&str, Vec<u8>, Enc<G>, Dec<G>); 3] = [
        ("raw", raw.clone(), G::to_slice, G::from_slice),
        ("uncompressed", G::enc_uncompressed(&a), G::to_uncompressed, G::from_uncompressed),
        ("compressed", G::enc_compressed(&a), G::to_compressed, G::from_compressed),
    ];
    for (name, want, enc, dec) in formats.iter() {
        let got = enc(p.val);
        ensure!(got == *want, &format!("encode|{}|bytes", name), "{} {} encoding of k={:x} [{}] = {} want {}", G::NAME, name, p.k, p.how, hex(&got), hex(want));
        match dec(want) {
            Ok(d) => {
                ensure!(d == p.val, &format!("decode|{}|not-equal", name), "{} {}: decode(encode(P)) != P for k={:x} [{}]", G::NAME, name, p.k, p.how);
                ensure!(G::denotes(&d) == p.aff, &format!("decode|{}|wrong-point", name), "{} {}: decoded point denotes {} want {}", G::NAME, name, G::show_aff(&G::denotes(&d)), G::show_aff(&p.aff));
                let again = enc(d);
                ensure!(again == *want, &format!("decode|{}|reencode", name), "{} {}: re-encoding the decoded point gives {} want {}", G::NAME, name, hex(&again), hex(want));
            }
            Err(e) => fail!(&format!("decode|{}|rejected", name), "{} {}: decoder rejected the encoding of k={:x}: {:?} ({})", G::NAME, name, p.k, e, hex(want)),
        }
    }
    // the encodings of -P share x and differ in parity / y
    let np = rf::aff_neg(&p.aff).unwrap();
    let cneg = G::enc_compressed(&np);
    let cpos = G::enc_compressed(&a);
    if cneg[1..] != cpos[1..] || cneg[0] == cpos[0] {
        fail!("oracle|parity", "reference compressed encodings of P and -P are not x-equal / parity-opposite");
    }
    Ok(())
}

pub fn check(g: &[u8], ctx: &Ctx) -> Result<Info, Failure> {
    let mut s = Src::new(g);
    let mut info = Info::default();
    let mut key = Key::new();
    if s.bool() {
        // G1 is the whole curve, so points can also be chosen by a boundary x-coordinate
        let fx = if s.choose(4) == 0 {
            let c = s.choose(3);
            info.class("g1:point-from-chosen-x");
            Some(crate::grp::g1_point_from_x(&mut s, c)?)
        } else {
            None
        };
        run::<GA>(&mut s, &mut info, &mut key, ctx, fx)?;
    } else {
        run::<GB>(&mut s, &mut info, &mut key, ctx, None)?;
    }
    info.key = key.done();
    Ok(info)
}
