//! C11 — Gt is a commutative group of order r and pow is exponentiation.
use crate::conv::gt_to_p12;
use crate::gen::{fr_of, scalar};
use crate::props::c01::{e, gt_hex};
use crate::rf::{Fld, P12};
use crate::runner::{Ctx, Failure, Info, Key, PropDef};
use crate::src::Src;
use crate::zp;
use crate::{ensure, fail};
use num_bigint::BigUint;
use num_traits::Zero;
use serde_json::json;
use sm9_core::{Group, Gt, G1, G2};

pub fn def() -> PropDef {
    PropDef {
        id: "C11",
        check,
        genome_len: 700,
        quick_cases: 12_000,
        thorough_cases: 400_000,
        rule: "case = (g, h, a, b): g and h are small expression trees (depth <= 3) over pairing values of arbitrary inputs (any entry point), products, powers and inverses, with h sometimes built to equal g by a different route; a, b from the scalar boundary classes (0, 1, r-1, ...); oracle (i): the 384-byte encodings are parsed into F_q[w]/(w^12+2) and g*h, inverse(g), g^a are recomputed by schoolbook multiplication / Gaussian elimination / plain square-and-multiply and compared byte for byte; (ii) the group and exponent laws on library values; (iii) == iff encodings equal iff discrete logs equal, every 32-byte limb < q, g^(r-1) g = 1; non-trivial = g != h, neither is one, exponents not in {0,1}; distinct by the construction of (g, h, a, b)",
        required: crate::runner::req(&["node:leaf", "node:mul", "node:pow", "node:inverse", "pair:equal-by-construction", "pair:independent", "g:one", "a:boundary"]),
        enumerate: None,
        enumerate_note: "",
        also_dbg: false,
        assumptions: super::TRUSTED,
        max_shrink_iters: 200,
    }
}

/// builds a Gt value together with its discrete log (w.r.t. e(P1,P2)) and a description
fn tree(s: &mut Src, depth: usize, info: &mut Info, how: &mut String) -> (Gt, BigUint) {
    let r = zp::r();
    let node = if depth == 0 { 0 } else { s.weighted(&[5, 3, 3, 2]) };
    match node {
        0 => {
            info.class("node:leaf");
            let c = scalar(s).k;
            let d = scalar(s).k;
            let en = s.choose(3);
            let g = e(en, G1::one() * fr_of(&c), G2::one() * fr_of(&d));
            how.push_str(&format!("e{}({:x}P1,{:x}P2)", en, c, d));
            (g, (&c * &d) % r)
        }
        1 => {
            info.class("node:mul");
            how.push('(');
            let (a, ka) = tree(s, depth - 1, info, how);
            how.push('*');
            let (b, kb) = tree(s, depth - 1, info, how);
            how.push(')');
            (a * b, (ka + kb) % r)
        }
        2 => {
            info.class("node:pow");
            let (a, ka) = tree(s, depth - 1, info, how);
            let x = scalar(s).k;
            how.push_str(&format!("^{:x}", x));
            (a.pow(fr_of(&x)), (ka * x) % r)
        }
        _ => {
            info.class("node:inverse");
            how.push_str("inv(");
            let (a, ka) = tree(s, depth - 1, info, how);
            how.push(')');
            (a.inverse().unwrap_or_else(Gt::one), (r - ka) % r)
        }
    }
}

fn parse(g: &Gt, what: &str) -> Result<P12, Failure> {
    match gt_to_p12(g) {
        Some(p) => Ok(p),
        None => fail!("encoding|limb>=q", "{}: a 32-byte limb of the 384-byte encoding is >= q: {}", what, gt_hex(g)),
    }
}

pub fn check(g: &[u8], ctx: &Ctx) -> Result<Info, Failure> {
    let mut s = Src::new(g);
    let mut info = Info::default();
    let mut key = Key::new();
    let r = zp::r();
    let mut hg = String::new();
    let mut hh = String::new();
    let dg = s.choose(4);
    let (gv, kg) = tree(&mut s, dg, &mut info, &mut hg);
    let (hv, kh) = if s.choose(3) == 0 {
        // h equal to g by a different route: e(P1, kg*P2), or (e(P1,P2)^kg)
        info.class("pair:equal-by-construction");
        if s.bool() {
            hh = format!("e0(P1,{:x}P2)", kg);
            (e(0, G1::one(), G2::one() * fr_of(&kg)), kg.clone())
        } else {
            hh = format!("e1(P1,P2)^{:x}", kg);
            (e(1, G1::one(), G2::one()).pow(fr_of(&kg)), kg.clone())
        }
    } else {
        info.class("pair:independent");
        let dh = s.choose(3);
        tree(&mut s, dh, &mut info, &mut hh)
    };
    let sa = scalar(&mut s);
    let sb = scalar(&mut s);
    let (a, b) = (sa.k.clone(), sb.k.clone());
    info.class(format!("a:{}", sa.class));
    if kg.is_zero() {
        info.class("g:one");
    }
    let one = BigUint::from(1u32);
    info.nontrivial = kg != kh && !kg.is_zero() && !kh.is_zero() && a > one && b > one;
    key.s(&hg).s(&hh).big(&a).big(&b);
    if ctx.want_desc {
        info.desc = crate::runner::note(json!({"g": hg, "h": hh, "a": zp::hexs(&a), "b": zp::hexs(&b), "dlog_g": zp::hexs(&kg), "dlog_h": zp::hexs(&kh)}));
    }
    let (fa, fb) = (fr_of(&a), fr_of(&b));
    let lone = Gt::one();
    // (iii) encodings: limbs < q (parse), == iff encodings equal iff dlogs equal
    let pg = parse(&gv, "g")?;
    let ph = parse(&hv, "h")?;
    let enc_eq = gv.to_slice()[..] == hv.to_slice()[..];
    ensure!((gv == hv) == enc_eq, "eq|vs-encoding", "g == h is {} but encodings equal is {} (g = {}, h = {})", gv == hv, enc_eq, hg, hh);
    ensure!(enc_eq == (kg == kh), "eq|vs-dlog", "encodings equal is {} but discrete logs equal is {} (g = {} -> {}, h = {} -> {})", enc_eq, kg == kh, hg, gt_hex(&gv), hh, gt_hex(&hv));
    ensure!((gv == lone) == kg.is_zero(), "eq|one", "g == one is {} but dlog(g) = {:x} (g = {})", gv == lone, kg, hg);
    if lone.to_slice()[..] != P12::one().to_sm9_bytes()[..] {
        fail!("one|encoding", "Gt::one() does not encode 1");
    }
    // (i) reference arithmetic on the parsed encodings
    let prod = gv * hv;
    ensure!(prod.to_slice()[..] == pg.mul(&ph).to_sm9_bytes()[..], "mul|vs-reference", "g*h = {} differs from the product in F_q[w]/(w^12+2) (g = {}, h = {})", gt_hex(&prod), hg, hh);
    match (gv.inverse(), pg.inv()) {
        (Some(i), Some(w)) => {
            ensure!(i.to_slice()[..] == w.to_sm9_bytes()[..], "inverse|vs-reference", "inverse(g) differs from the reference inverse (g = {})", hg);
            ensure!(i * gv == lone && gv * i == lone, "inverse|times-g", "inverse(g)*g != one (g = {})", hg);
        }
        _ => fail!("inverse|none", "inverse(g) is None for a pairing value (g = {})", hg),
    }
    let ga = gv.pow(fa);
    ensure!(ga.to_slice()[..] == pg.pow(&a).to_sm9_bytes()[..], "pow|vs-reference", "g^a differs from plain square-and-multiply in the reference (g = {}, a = {:x})", hg, a);
    // (ii) laws on library values
    ensure!(prod == hv * gv, "law|commutative", "g*h != h*g (g = {}, h = {})", hg, hh);
    ensure!(gv * lone == gv && lone * gv == gv, "law|one", "g*one != g (g = {})", hg);
    let gb = gv.pow(fb);
    ensure!(ga * gb == gv.pow(fa + fb), "law|pow-add", "g^a g^b != g^(a+b) (g = {}, a = {:x}, b = {:x})", hg, a, b);
    ensure!(ga.pow(fb) == gv.pow(fa * fb), "law|pow-mul", "(g^a)^b != g^(ab) (g = {}, a = {:x}, b = {:x})", hg, a, b);
    ensure!(prod.pow(fa) == ga * hv.pow(fa), "law|pow-distributes", "(gh)^a != g^a h^a (g = {}, h = {}, a = {:x})", hg, hh, a);
    ensure!(gv.pow(fr_of(&BigUint::zero())) == lone, "law|pow-zero", "g^0 != one (g = {})", hg);
    ensure!(gv.pow(fr_of(&one)) == gv, "law|pow-one", "g^1 != g (g = {})", hg);
    ensure!(gv.pow(fr_of(&(r - 1u32))) * gv == lone, "law|order", "g^(r-1)*g != one (g = {})", hg);
    // associativity with a third value
    let t = ga;
    ensure!((gv * hv) * t == gv * (hv * t), "law|associative", "(gh)t != g(ht)");
    // dlog model: g^a has dlog kg*a
    let want = e(0, G1::one(), G2::one()).pow(fr_of(&((&kg * &a) % r)));
    ensure!(t == want, "pow|vs-dlog", "g^a != e(P1,P2)^(dlog(g)*a) (g = {}, a = {:x})", hg, a);
    info.key = key.done();
    Ok(info)
}
