//! One module per property; `all()` is the registry used by the CLI and the fuzz targets.
use crate::runner::PropDef;

pub mod c01;
pub mod c02;
pub mod c03;
pub mod c04;
pub mod c05;
pub mod c06;
pub mod c07;
pub mod c08;
pub mod c09;
pub mod c10;
pub mod c11;
pub mod c12;
pub mod c13;
pub mod c14;
pub mod c15;
pub mod c16;
pub mod c17;
pub mod c18;

pub const TRUSTED: &[&str] = &[
    "rustc / std",
    "proptest (generation, shrinking)",
    "num-bigint (integer oracle)",
    "ark-ff Fp256<MontBackend> (reference field; cross-checked against num-bigint at start-up)",
    "SM9 constants and formats as transcribed in rf.rs/zp.rs (validated against the standard's published vectors at start-up)",
];

pub fn all() -> Vec<PropDef> {
    vec![c01::def(), c02::def(), c03::def(), c04::def(), c05::def(), c06::def(), c07::def(), c08::def(), c09::def(), c10::def(), c11::def(), c12::def(), c13::def(), c14::def(), c15::def(), c16::def(), c17::def(), c18::def()]
}

pub fn find(id: &str) -> Option<PropDef> {
    all().into_iter().find(|d| d.id.eq_ignore_ascii_case(id))
}

#[macro_export]
macro_rules! fail {
    ($sig:expr, $($arg:tt)*) => {
        return Err($crate::runner::Failure::new($sig, format!($($arg)*)))
    };
}

#[macro_export]
macro_rules! ensure {
    ($cond:expr, $sig:expr, $($arg:tt)*) => {
        if !($cond) {
            return Err($crate::runner::Failure::new($sig, format!($($arg)*)));
        }
    };
}
