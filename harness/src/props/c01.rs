//! C01 — pairing is bilinear, non-degenerate and trivial on the identity (every entry point).
use crate::gen::{fr_of, scalar, Rep};
use crate::grp::{desc_pt, point, Pt, GA, GB};
use crate::runner::{Ctx, Failure, Info, Key, PropDef};
use crate::src::{hex, Src};
use crate::zp;
use crate::ensure;
use num_bigint::BigUint;
use num_traits::Zero;
use serde_json::json;
use sm9_core::{fast_pairing, pairing, G2Prepared, Gt, G1, G2};

pub const ENTRIES: [&str; 3] = ["pairing", "fast_pairing", "G2Prepared::pairing"];

pub fn e(entry: usize, p: G1, q: G2) -> Gt {
    match entry {
        0 => pairing(p, q),
        1 => fast_pairing(p, q),
        _ => G2Prepared::from(q).pairing(&p),
    }
}

pub fn gt_hex(g: &Gt) -> String {
    let s = g.to_slice();
    format!("{}..{}", hex(&s[..8]), hex(&s[376..]))
}

pub fn def() -> PropDef {
    let mut required = vec![];
    for k in ["scalars", "add-left", "add-right", "identity", "order", "nondegenerate"] {
        required.push(format!("kind:{}", k));
    }
    for rep in ["affine", "libjac", "rescaled", "zero-canon", "zero-leftover", "zero-arb"] {
        required.push(format!("P:{}", rep));
        required.push(format!("Q:{}", rep));
    }
    required.push("identity:both".into());
    required.push("coz:summands".into());
    PropDef {
        id: "C01",
        check,
        genome_len: 900,
        quick_cases: 8_000,
        thorough_cases: 400_000,
        rule: "case = (relation in {scalars, add-left, add-right, identity, order, nondegenerate}, scalars a,b,c,c',d,d' from the boundary classes, representations of P=cP1, P'=c'P1, Q=dP2, Q'=d'P2 incl. three identity forms); each relation of the statement is evaluated on library outputs for each of pairing, fast_pairing, G2Prepared::pairing; non-trivial = some operand is not the bare generator with z=1 and the scalars are not all in {0,1}, or (identity) a non-canonical identity / identity on both sides; distinct by (relation, scalars, constructions)",
        required,
        enumerate: None,
        enumerate_note: "",
        also_dbg: false,
        assumptions: super::TRUSTED,
        max_shrink_iters: 200,
    }
}

fn pt_classes(info: &mut Info, p: &Pt<GA>, q: &Pt<GB>) {
    info.class(format!("P:{}", p.rep.name()));
    info.class(format!("Q:{}", q.rep.name()));
}

pub fn check(g: &[u8], ctx: &Ctx) -> Result<Info, Failure> {
    let mut s = Src::new(g);
    let mut info = Info::default();
    let mut key = Key::new();
    let r = zp::r();
    let kind = s.weighted(&[6, 4, 4, 5, 2, 3]);
    let kinds = ["scalars", "add-left", "add-right", "identity", "order", "nondegenerate"];
    info.class(format!("kind:{}", kinds[kind]));
    let one = Gt::one();
    match kind {
        0 => {
            // e(aP, bQ) = e(P, Q)^(ab)
            let (a, b) = (scalar(&mut s).k, scalar(&mut s).k);
            let (c, d) = (scalar(&mut s).k, scalar(&mut s).k);
            let (cp, cq) = (s.choose(3), s.choose(3));
            let p: Pt<GA> = point(&mut s, &c, cp)?;
            let q: Pt<GB> = point(&mut s, &d, cq)?;
            pt_classes(&mut info, &p, &q);
            info.nontrivial = !(p.rep == Rep::Affine && q.rep == Rep::Affine && c <= BigUint::from(1u32) && d <= BigUint::from(1u32)) && !(a <= BigUint::from(1u32) && b <= BigUint::from(1u32));
            key.s("scalars").big(&a).big(&b).big(&c).big(&d).s(&p.how).s(&q.how);
            if ctx.want_desc {
                info.desc = crate::runner::note(json!({"relation": "e(aP,bQ) = e(P,Q)^(ab)", "a": zp::hexs(&a), "b": zp::hexs(&b), "P": desc_pt(&p), "Q": desc_pt(&q)}));
            }
            let ap = p.val * fr_of(&a);
            let bq = q.val * fr_of(&b);
            let ab = fr_of(&((&a * &b) % r));
            for en in 0..3 {
                let lhs = e(en, ap, bq);
                let base = e(en, p.val, q.val);
                let rhs = base.pow(ab);
                ensure!(lhs == rhs, &format!("{}|bilinear-scalars", ENTRIES[en]), "{}: e(aP,bQ) = {} != e(P,Q)^(ab) = {} (a={:x} b={:x}; P: c={:x} {}; Q: d={:x} {})", ENTRIES[en], gt_hex(&lhs), gt_hex(&rhs), a, b, p.k, p.how, q.k, q.how);
                // consequence: value is 1 iff a*b*c*d = 0 mod r (r prime, generators' pairing != 1)
                let z = ((&a * &b) % r * &c % r * &d % r).is_zero();
                ensure!((lhs == one) == z, &format!("{}|degenerate", ENTRIES[en]), "{}: e(aP,bQ) == 1 is {} but abcd mod r {} 0", ENTRIES[en], lhs == one, if z { "==" } else { "!=" });
            }
        }
        1 | 2 => {
            let (c, c2, d, d2) = (scalar(&mut s).k, scalar(&mut s).k, scalar(&mut s).k, scalar(&mut s).k);
            let cats = [s.choose(3), s.choose(3), s.choose(3), s.choose(3)];
            let p: Pt<GA> = point(&mut s, &c, cats[0])?;
            let p2: Pt<GA> = point(&mut s, &c2, cats[1])?;
            let q: Pt<GB> = point(&mut s, &d, cats[2])?;
            let q2: Pt<GB> = point(&mut s, &d2, cats[3])?;
            // sometimes give the second summand a z related to the first one's by a small root of unity (shared z, or
            // equal z^2 / z^3 / z^4): what X+Y, X-Y and hand-built representatives produce
            let (mut p2, mut q2) = (p2, q2);
            if s.choose(4) == 0 {
                use crate::grp::Grp;
                use crate::rf::Fld;
                if kind == 1 && !p.k.is_zero() && !p2.k.is_zero() {
                    let z = GA::coords(&p.val).2;
                    if z != crate::rf::F::one() {
                        let (zeta, zn) = GA::small_root_of_unity(s.choose(6));
                        let zb = z.mul(&zeta);
                        p2 = Pt { k: p2.k.clone(), rep: Rep::Rescaled, how: format!("rescaled to {} * (z of P)", zn), val: GA::rescaled(&p2.aff.unwrap(), &zb), aff: p2.aff };
                        info.class("coz:summands");
                    }
                } else if kind == 2 && !q.k.is_zero() && !q2.k.is_zero() {
                    let z = GB::coords(&q.val).2;
                    if z != crate::rf::R2::one() {
                        let (zeta, zn) = GB::small_root_of_unity(s.choose(6));
                        let zb = z.mul(&zeta);
                        q2 = Pt { k: q2.k.clone(), rep: Rep::Rescaled, how: format!("rescaled to {} * (z of Q)", zn), val: GB::rescaled(&q2.aff.unwrap(), &zb), aff: q2.aff };
                        info.class("coz:summands");
                    }
                }
            }
            pt_classes(&mut info, &p, &q);
            pt_classes(&mut info, &p2, &q2);
            info.nontrivial = true;
            key.s(kinds[kind]).big(&c).big(&c2).big(&d).big(&d2).s(&p.how).s(&p2.how).s(&q.how).s(&q2.how);
            if ctx.want_desc {
                info.desc = crate::runner::note(json!({"relation": if kind == 1 {"e(P+P',Q) = e(P,Q) e(P',Q)"} else {"e(P,Q+Q') = e(P,Q) e(P,Q')"}, "P": desc_pt(&p), "P'": desc_pt(&p2), "Q": desc_pt(&q), "Q'": desc_pt(&q2)}));
            }
            for en in 0..3 {
                if kind == 1 {
                    let lhs = e(en, p.val + p2.val, q.val);
                    let rhs = e(en, p.val, q.val) * e(en, p2.val, q.val);
                    ensure!(lhs == rhs, &format!("{}|additive-left", ENTRIES[en]), "{}: e(P+P',Q) = {} != e(P,Q)e(P',Q) = {} (P: c={:x} {}; P': c={:x} {}; Q: d={:x} {})", ENTRIES[en], gt_hex(&lhs), gt_hex(&rhs), p.k, p.how, p2.k, p2.how, q.k, q.how);
                } else {
                    let lhs = e(en, p.val, q.val + q2.val);
                    let rhs = e(en, p.val, q.val) * e(en, p.val, q2.val);
                    ensure!(lhs == rhs, &format!("{}|additive-right", ENTRIES[en]), "{}: e(P,Q+Q') = {} != e(P,Q)e(P,Q') = {} (P: c={:x} {}; Q: d={:x} {}; Q': d={:x} {})", ENTRIES[en], gt_hex(&lhs), gt_hex(&rhs), p.k, p.how, q.k, q.how, q2.k, q2.how);
                }
            }
        }
        3 => {
            // e(O, Q) = e(P, O) = e(O, O) = 1 for every representation of the identity
            let which = s.choose(3); // 0: O in G1, 1: O in G2, 2: both
            let (zc1, zc2) = (s.choose(3), s.choose(3));
            let (c, d) = (scalar(&mut s).k, scalar(&mut s).k);
            let (cp, cq) = (s.choose(3), s.choose(3));
            let zero = BigUint::zero();
            let p: Pt<GA> = if which != 1 { point(&mut s, &zero, zc1)? } else { point(&mut s, &c, cp)? };
            let q: Pt<GB> = if which != 0 { point(&mut s, &zero, zc2)? } else { point(&mut s, &d, cq)? };
            pt_classes(&mut info, &p, &q);
            if which == 2 {
                info.class("identity:both");
            }
            info.nontrivial = which == 2 || (which == 0 && p.rep != Rep::ZeroCanon) || (which == 1 && q.rep != Rep::ZeroCanon);
            key.s("identity").n(which as u64).big(&p.k).big(&q.k).s(&p.how).s(&q.how);
            if ctx.want_desc {
                info.desc = crate::runner::note(json!({"relation": "e(O,Q) = e(P,O) = 1", "P": desc_pt(&p), "Q": desc_pt(&q)}));
            }
            for en in 0..3 {
                let v = e(en, p.val, q.val);
                let ic = if p.k.is_zero() && q.k.is_zero() { "both" } else if p.k.is_zero() { "g1" } else { "g2" };
                let irep = if p.k.is_zero() { p.rep.name() } else { q.rep.name() };
                ensure!(p.k.is_zero() || q.k.is_zero(), "harness|identity-case", "identity case without identity");
                ensure!(v == one, &format!("{}|identity-not-one|{}-{}", ENTRIES[en], ic, irep), "{}: pairing with an identity argument is {} instead of 1 (P: k={:x} {} = {}; Q: k={:x} {})", ENTRIES[en], gt_hex(&v), p.k, p.how, crate::conv::show_g1(&p.val), q.k, q.how);
            }
        }
        4 => {
            // every pairing value g satisfies g^(r-1) * g = 1
            let (c, d) = (scalar(&mut s).k, scalar(&mut s).k);
            let (cp, cq) = (s.choose(3), s.choose(3));
            let p: Pt<GA> = point(&mut s, &c, cp)?;
            let q: Pt<GB> = point(&mut s, &d, cq)?;
            pt_classes(&mut info, &p, &q);
            info.nontrivial = !(c.is_zero() || d.is_zero());
            key.s("order").big(&c).big(&d).s(&p.how).s(&q.how);
            if ctx.want_desc {
                info.desc = crate::runner::note(json!({"relation": "g^(r-1) * g = 1", "P": desc_pt(&p), "Q": desc_pt(&q)}));
            }
            let rm1 = fr_of(&(r - 1u32));
            for en in 0..3 {
                let gv = e(en, p.val, q.val);
                ensure!(gv.pow(rm1) * gv == one, &format!("{}|order", ENTRIES[en]), "{}: g^(r-1)*g != 1 for g = e({:x}P1, {:x}P2)", ENTRIES[en], c, d);
            }
        }
        _ => {
            // the pairing of the two generators is not 1; e(cP1, dP2) = 1 iff cd = 0 mod r
            let (c, d) = (scalar(&mut s).k, scalar(&mut s).k);
            let (cp, cq) = (s.choose(3), s.choose(3));
            let p: Pt<GA> = point(&mut s, &c, cp)?;
            let q: Pt<GB> = point(&mut s, &d, cq)?;
            pt_classes(&mut info, &p, &q);
            info.nontrivial = true;
            key.s("nondeg").big(&c).big(&d).s(&p.how).s(&q.how);
            if ctx.want_desc {
                info.desc = crate::runner::note(json!({"relation": "e(cP1,dP2) = 1 iff cd = 0; e(P1,P2) != 1", "P": desc_pt(&p), "Q": desc_pt(&q)}));
            }
            use sm9_core::Group;
            for en in 0..3 {
                let gg = e(en, G1::one(), G2::one());
                ensure!(gg != one, &format!("{}|generators-degenerate", ENTRIES[en]), "{}: e(P1,P2) = 1", ENTRIES[en]);
                let v = e(en, p.val, q.val);
                let z = ((&c * &d) % r).is_zero();
                ensure!((v == one) == z, &format!("{}|degenerate", ENTRIES[en]), "{}: e(cP1,dP2) == 1 is {} for c={:x} d={:x}", ENTRIES[en], v == one, c, d);
                ensure!(v == gg.pow(fr_of(&((&c * &d) % r))), &format!("{}|bilinear-generators", ENTRIES[en]), "{}: e(cP1,dP2) != e(P1,P2)^(cd) for c={:x} ({}) d={:x} ({})", ENTRIES[en], c, p.how, d, q.how);
            }
        }
    }
    info.key = key.done();
    Ok(info)
}
