//! C06 — Fq and Fr arithmetic is exact integer arithmetic modulo q and r.
//! Oracle: num-bigint integers. Every operator form the macros generate is exercised.
use crate::conv::*;
use crate::gen::{felt, felt_pair, mont_of, Md};
use crate::runner::{Ctx, Failure, Info, Key, PropDef};
use crate::src::Src;
use crate::zp;
use crate::{ensure, fail};
use num_bigint::BigUint;
use num_traits::{One, Zero};
use serde_json::json;
use sm9_core::{verif_hooks as hk, Fq, Fr};

pub fn def() -> PropDef {
    PropDef {
        id: "C06",
        check,
        genome_len: 160,
        quick_cases: 600_000,
        thorough_cases: 40_000_000,
        rule: "case = (field in {Fq,Fr}, a, b with a relation, exponent e); operands from canonical boundaries, stored-limb (Montgomery) boundary patterns, powers of two, small, uniform, and derived pairs whose *stored product / square* is a boundary pattern (b = t/a, a = sqrt(t)) or whose Montgomery quotient digits are boundary limbs; non-trivial = some operand is from a boundary/limb class or the pair is related (not uniform x uniform x independent); distinct by (field,a,b,e)",
        required: crate::runner::req(&[
            "field:q", "field:r", "rel:equal", "rel:negation", "rel:stored-sum-2^256", "add:stored-carry", "add:stored-sum=p",
            "mul:final-sub", "a:limb-mont", "a:limb-canon", "a:canon-boundary", "inverse:zero", "rel:product-stored-target", "rel:inverse-stored-target", "rel:square-quotient-target", "sqr:quotient-digit-zero", "a:stored-pattern", "rel:square-stored-target", "rel:quotient-digit-target", "mul:quotient-digit-zero", "mul:quotient-digit-ff", "sqr:pre=2^256+small",
        ]),
        enumerate: Some(enumerate),
        enumerate_note: "exhaustive over the stored-limb alphabet: every value whose four Montgomery limbs come from {0, 1, 2^63, 2^64-1, 2^64-2, limb_i(p), limb_i(p)+-1} (8^4 per field) as operand of every unary operation and of a op a [quick + thorough]; every ordered pair over the 4-letter alphabet {0, 2^64-1, limb_i(p), limb_i(p)-1} (4^8 = 65 536 pairs per field) [thorough]",
        also_dbg: false,
        assumptions: super::TRUSTED,
        max_shrink_iters: 400,
    }
}

fn mont_pre(sa: &BigUint, sb: &BigUint, m: Md) -> BigUint {
    crate::gen::mont_pre_sum(&[(sa.clone(), sb.clone())], m)
}

macro_rules! field_case {
    ($T:ty, $m:expr, $of_big:ident, $to_big:ident, $s:expr, $info:expr, $key:expr, $ctx:expr) => {{
        let m: Md = $m;
        let p = m.p();
        let (fa, fb, rel, fe) = operands($s, m);
        let (a, b, e) = (fa.v.clone(), fb.v.clone(), fe.v.clone());
        $info.class(format!("field:{}", m.name()));
        $info.class(format!("a:{}", fa.class));
        $info.class(format!("b:{}", fb.class));
        $info.class(format!("rel:{}", rel));
        $info.nontrivial = !(fa.class == "uniform" && fb.class == "uniform" && rel == "independent");
        $key.s(m.name()).big(&a).big(&b).big(&e);
        if $ctx.want_desc {
            $info.desc = crate::runner::note(json!({"field": m.name(), "a": zp::hexs(&a), "a_class": fa.class, "b": zp::hexs(&b), "b_class": fb.class, "relation": rel, "e": zp::hexs(&e)}));
        }
        // stored-side classes, computed in the model
        let (sa, sb) = (mont_of(&a, m), mont_of(&b, m));
        let ssum = &sa + &sb;
        if ssum >= zp::c().two256 {
            $info.class("add:stored-carry");
        } else if &ssum == p {
            $info.class("add:stored-sum=p");
        } else if &ssum > p {
            $info.class("add:stored-sub");
        }
        let u = mont_pre(&sa, &sb, m);
        if u >= zp::c().two256 {
            $info.class("mul:pre>=2^256");
        } else if &u >= p {
            $info.class("mul:final-sub");
        }
        if a.is_zero() {
            $info.class("inverse:zero");
        }
        {
            // the Montgomery quotient digits of a*b (the per-round reduction multipliers), from the model
            let r256 = &zp::c().two256;
            let mq = (((&sa * &sb) % r256) * crate::gen::neg_inv_p(m)) % r256;
            let d = mq.to_u64_digits();
            let digit = |i: usize| d.get(i).copied().unwrap_or(0);
            if (1..4).any(|i| digit(i) == 0) && !sa.is_zero() && !sb.is_zero() {
                $info.class("mul:quotient-digit-zero");
            }
            if (0..4).any(|i| digit(i) == u64::MAX) {
                $info.class("mul:quotient-digit-ff");
            }
            // quotient digits of the square a*a
            let sq = (((&sa * &sa) % r256) * crate::gen::neg_inv_p(m)) % r256;
            let dq = sq.to_u64_digits();
            if (1..4).any(|i| dq.get(i).copied().unwrap_or(0) == 0) && !sa.is_zero() {
                $info.class("sqr:quotient-digit-zero");
            }
            // pre-subtraction value of the square a*a
            let us = mont_pre(&sa, &sa, m);
            if us >= zp::c().two256 {
                $info.class("sqr:pre>=2^256");
                if (&us - &zp::c().two256) < BigUint::from(512u32) {
                    $info.class("sqr:pre=2^256+small");
                }
            }
        }

        let la: $T = $of_big(&a);
        let lb: $T = $of_big(&b);
        let le: $T = $of_big(&e);
        // constructor round-trip (the observation channel itself)
        ensure!($to_big(&la) == a, "from_slice/to_slice|roundtrip", "{}: from_slice(be32({:x})).to_slice() = {:x}", m.name(), a, $to_big(&la));
        ensure!($to_big(&lb) == b, "from_slice/to_slice|roundtrip", "{}: from_slice(be32({:x})).to_slice() = {:x}", m.name(), b, $to_big(&lb));

        // ---- addition, all forms
        let want = zp::add_mod(&a, &b, p);
        let forms: [(&str, $T); 6] = [
            ("a+b", la + lb),
            ("&a+b", &la + lb),
            ("a+&b", la + &lb),
            ("&a+&b", &la + &lb),
            ("a+=b", { let mut t = la; t += lb; t }),
            ("a+=&b", { let mut t = la; t += &lb; t }),
        ];
        for (name, got) in forms.iter() {
            let g = $to_big(got);
            ensure!(<$T>::from_slice(&got.to_slice()) == Some(*got), "add|second-representation", "{} {}: result is not in canonical form (from_slice(to_slice(v)) != v) for a={:x} b={:x}", m.name(), name, a, b);
            ensure!(g == want, "add|value", "{} {}: a={:x} b={:x} got {:x} want {:x}", m.name(), name, a, b, g, want);
        }
        // ---- subtraction
        let want = zp::sub_mod(&a, &b, p);
        let forms: [(&str, $T); 6] = [
            ("a-b", la - lb),
            ("&a-b", &la - lb),
            ("a-&b", la - &lb),
            ("&a-&b", &la - &lb),
            ("a-=b", { let mut t = la; t -= lb; t }),
            ("a-=&b", { let mut t = la; t -= &lb; t }),
        ];
        for (name, got) in forms.iter() {
            let g = $to_big(got);
            ensure!(<$T>::from_slice(&got.to_slice()) == Some(*got), "sub|second-representation", "{} {}: result is not in canonical form (from_slice(to_slice(v)) != v) for a={:x} b={:x}", m.name(), name, a, b);
            ensure!(g == want, "sub|value", "{} {}: a={:x} b={:x} got {:x} want {:x}", m.name(), name, a, b, g, want);
        }
        // ---- multiplication
        let want = zp::mul_mod(&a, &b, p);
        let forms: [(&str, $T); 6] = [
            ("a*b", la * lb),
            ("&a*b", &la * lb),
            ("a*&b", la * &lb),
            ("&a*&b", &la * &lb),
            ("a*=b", { let mut t = la; t *= lb; t }),
            ("a*=&b", { let mut t = la; t *= &lb; t }),
        ];
        for (name, got) in forms.iter() {
            let g = $to_big(got);
            ensure!(<$T>::from_slice(&got.to_slice()) == Some(*got), "mul|second-representation", "{} {}: result is not in canonical form (from_slice(to_slice(v)) != v) for a={:x} b={:x}", m.name(), name, a, b);
            ensure!(g == want, "mul|value", "{} {}: a={:x} b={:x} got {:x} want {:x}", m.name(), name, a, b, g, want);
        }
        // ---- negation
        let want = zp::neg_mod(&a, p);
        for (name, got) in [("-a", -la), ("-&a", -&la)].iter() {
            let g = $to_big(got);
            ensure!(<$T>::from_slice(&got.to_slice()) == Some(*got), "neg|second-representation", "{} {}: result is not in canonical form (from_slice(to_slice(v)) != v) for a={:x} b={:x}", m.name(), name, a, b);
            ensure!(g == want, "neg|value", "{} {}: a={:x} got {:x} want {:x}", m.name(), name, a, g, want);
        }
        // ---- inverse
        match (la.inverse(), zp::inv_mod(&a, p)) {
            (None, None) => {}
            (Some(g), Some(w)) => {
                ensure!(<$T>::from_slice(&g.to_slice()) == Some(g), "inverse|second-representation", "{} inverse({:x}) is not in canonical form (from_slice(to_slice(v)) != v)", m.name(), a);
                let g = $to_big(&g);
                ensure!(g == w, "inverse|value", "{} inverse({:x}) = {:x} want {:x}", m.name(), a, g, w);
            }
            (None, Some(_)) => fail!("inverse|none-for-nonzero", "{} inverse({:x}) = None", m.name(), a),
            (Some(g), None) => fail!("inverse|some-for-zero", "{} inverse(0) = Some({:x})", m.name(), $to_big(&g)),
        }
        // ---- pow (exponent = canonical integer of the exponent element; 0^0 = 1)
        let want = zp::pow_mod(&a, &e, p);
        let pw = la.pow(le);
        ensure!(<$T>::from_slice(&pw.to_slice()) == Some(pw), "pow|second-representation", "{} pow({:x}, {:x}) is not in canonical form (from_slice(to_slice(v)) != v)", m.name(), a, e);
        // squaring through pow: exponent 2 (the last step of the exponentiation is a squaring)
        let p2 = la.pow($of_big(&BigUint::from(2u32)));
        ensure!(<$T>::from_slice(&p2.to_slice()) == Some(p2) && p2 == la * la && (p2 - la * la).is_zero() && $to_big(&(-p2)) == zp::neg_mod(&zp::mul_mod(&a, &a, p), p), "pow2|second-representation", "{} pow({:x}, 2) is not observationally equal to a*a", m.name(), a);
        let g = $to_big(&pw);
        ensure!(g == want, "pow|value", "{} pow({:x}, {:x}) = {:x} want {:x}", m.name(), a, e, g, want);
        // ---- zero test
        ensure!(la.is_zero() == a.is_zero(), "is_zero|value", "{} is_zero({:x}) = {}", m.name(), a, la.is_zero());
        let d = la - lb;
        ensure!(d.is_zero() == (a == b), "is_zero|difference", "{} is_zero({:x} - {:x}) = {}", m.name(), a, b, d.is_zero());
        // ---- == is value equality on these canonical inputs
        ensure!((la == lb) == (a == b), "eq|value", "{} ({:x} == {:x}) = {}", m.name(), a, b, la == lb);
        (la, lb, a, b)
    }};
}

/// explicit mode (enumerated sub-space): genome = 0xFE, field, then the 32-byte STORED (Montgomery) representatives of a
/// and b, big-endian; otherwise the usual generated pair
fn operands(s: &mut Src, m: Md) -> (crate::gen::Felt, crate::gen::Felt, &'static str, crate::gen::Felt) {
    if s.peek_explicit() {
        let p = m.p();
        let sa = zp::from_be(&s.bytes(32)) % p;
        let sb = zp::from_be(&s.bytes(32)) % p;
        let a = (sa * m.rinv()) % p;
        let b = (sb * m.rinv()) % p;
        let e = b.clone();
        return (
            crate::gen::Felt { v: a, class: "limb-mont" },
            crate::gen::Felt { v: b, class: "limb-mont" },
            "enumerated-stored-limbs",
            crate::gen::Felt { v: e, class: "limb-mont" },
        );
    }
    let (fa, fb, rel) = felt_pair(s, m);
    let fe = felt(s, m);
    (fa, fb, rel, fe)
}

/// all stored values whose four limbs come from the alphabet (reduced below p), as explicit genomes
fn enumerate(t: crate::runner::Tier) -> Vec<Vec<u8>> {
    let mut out = vec![];
    for (fi, m) in [Md::Q, Md::R].iter().enumerate() {
        let pl: Vec<u64> = m.p().to_u64_digits();
        let alpha = |i: usize| -> Vec<u64> { vec![0, 1, 1u64 << 63, u64::MAX, u64::MAX - 1, pl[i], pl[i].wrapping_add(1), pl[i].wrapping_sub(1)] };
        let enc = |l: &[u64; 4]| -> Vec<u8> {
            let mut b = vec![];
            for i in (0..4).rev() {
                b.extend_from_slice(&l[i].to_be_bytes());
            }
            b
        };
        // unary sub-space: every 4-limb pattern over the 8-letter alphabet as a (squared, inverse, pow, neg, ...), b = a
        let mut singles: Vec<[u64; 4]> = vec![];
        for l3 in alpha(3) {
            for l2 in alpha(2) {
                for l1 in alpha(1) {
                    for l0 in alpha(0) {
                        singles.push([l0, l1, l2, l3]);
                    }
                }
            }
        }
        for a in singles.iter() {
            let mut g = vec![0xFE, 1 - fi as u8];
            g.extend_from_slice(&enc(a));
            g.extend_from_slice(&enc(a));
            out.push(g);
        }
        // binary sub-space (thorough): all pairs over a 4-letter alphabet {0, 2^64-1, limb of p, limb of p - 1} per limb: 4^8 pairs
        if t == crate::runner::Tier::Thorough {
            let small = |i: usize| -> Vec<u64> { vec![0, u64::MAX, pl[i], pl[i].wrapping_sub(1)] };
            let mut v: Vec<[u64; 4]> = vec![];
            for l3 in small(3) {
                for l2 in small(2) {
                    for l1 in small(1) {
                        for l0 in small(0) {
                            v.push([l0, l1, l2, l3]);
                        }
                    }
                }
            }
            for a in v.iter() {
                for b in v.iter() {
                    let mut g = vec![0xFE, 1 - fi as u8];
                    g.extend_from_slice(&enc(a));
                    g.extend_from_slice(&enc(b));
                    out.push(g);
                }
            }
        }
    }
    out
}

pub fn check(g: &[u8], ctx: &Ctx) -> Result<Info, Failure> {
    let mut s = Src::new(g);
    let mut info = Info::default();
    let mut key = Key::new();
    let explicit = g.first() == Some(&0xFE);
    if explicit {
        s.u8();
        s.set_explicit(true);
    }
    if s.bool() {
        let (la, _lb, a, _b) = field_case!(Fq, Md::Q, fq_of_big, big_of_fq, &mut s, info, key, ctx);
        let p = zp::q();
        // parity of the canonical integer
        ensure!(la.is_even() == !a.bit(0), "is_even|value", "Fq is_even({:x}) = {}", a, la.is_even());
        // internal single-operand helpers used by the tower and curve code (hooks)
        { let hv = hk::fq_squared(&la); ensure!(Fq::from_slice(&hv.to_slice()) == Some(hv), "squared|second-representation", "Fq squared({:x}) is not in canonical form", a); }
        let g = big_of_fq(&hk::fq_squared(&la));
        ensure!(g == zp::mul_mod(&a, &a, p), "squared|value", "Fq squared({:x}) = {:x}", a, g);
        { let hv = hk::fq_double(&la); ensure!(Fq::from_slice(&hv.to_slice()) == Some(hv), "double|second-representation", "Fq double({:x}) is not in canonical form", a); }
        let g = big_of_fq(&hk::fq_double(&la));
        ensure!(g == zp::add_mod(&a, &a, p), "double|value", "Fq double({:x}) = {:x}", a, g);
        { let hv = hk::fq_triple(&la); ensure!(Fq::from_slice(&hv.to_slice()) == Some(hv), "triple|second-representation", "Fq triple({:x}) is not in canonical form", a); }
        let g = big_of_fq(&hk::fq_triple(&la));
        ensure!(g == zp::mul_mod(&a, &BigUint::from(3u32), p), "triple|value", "Fq triple({:x}) = {:x}", a, g);
        { let hv = hk::fq_div2(&la); ensure!(Fq::from_slice(&hv.to_slice()) == Some(hv), "div2|second-representation", "Fq div2({:x}) is not in canonical form", a); }
        let g = big_of_fq(&hk::fq_div2(&la));
        let half = zp::mul_mod(&a, &((p + 1u32) >> 1), p);
        ensure!(g == half, "div2|value", "Fq div2({:x}) = {:x} want {:x}", a, g, half);
    } else {
        let (la, _lb, a, _b) = field_case!(Fr, Md::R, fr_of_big, big_of_fr, &mut s, info, key, ctx);
        let p = zp::r();
        { let hv = hk::fr_squared(&la); ensure!(Fr::from_slice(&hv.to_slice()) == Some(hv), "squared|second-representation", "Fr squared({:x}) is not in canonical form", a); }
        let g = big_of_fr(&hk::fr_squared(&la));
        ensure!(g == zp::mul_mod(&a, &a, p), "squared|value", "Fr squared({:x}) = {:x}", a, g);
        { let hv = hk::fr_double(&la); ensure!(Fr::from_slice(&hv.to_slice()) == Some(hv), "double|second-representation", "Fr double({:x}) is not in canonical form", a); }
        let g = big_of_fr(&hk::fr_double(&la));
        ensure!(g == zp::add_mod(&a, &a, p), "double|value", "Fr double({:x}) = {:x}", a, g);
    }
    info.key = key.done();
    Ok(info)
}
