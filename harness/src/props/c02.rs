//! C02 — pairing values equal the SM9 R-ate pairing, byte for byte (independent textbook implementation).
use crate::gen::{scalar_nonzero, Rep};
use crate::grp::{desc_pt, point, Pt, GA, GB};
use crate::props::c01::{e, ENTRIES};
use crate::rf;
use crate::runner::{Ctx, Failure, Info, Key, PropDef, Tier};
use crate::selftest::{KAT_G, KAT_R_HEX, KAT_W, KS_HEX};
use crate::src::{hex, unhex, Src};
use crate::zp;
use crate::{ensure, fail};
use num_bigint::BigUint;
use serde_json::json;
use sm9_core::{Group, G1, G2};

pub fn def() -> PropDef {
    let mut required = vec!["kat:published".to_string()];
    for rep in ["affine", "libjac", "rescaled"] {
        required.push(format!("P:{}", rep));
        required.push(format!("Q:{}", rep));
    }
    PropDef {
        id: "C02",
        check,
        genome_len: 500,
        quick_cases: 4_000,
        thorough_cases: 160_000,
        rule: "case = (a, b in Z_r* from the boundary classes, representation of P = a*P1 and of Q = b*P2 in {z=1, library Jacobian, rescaled}); the 384-byte serialisation from each of the three entry points is compared with the textbook R-ate pairing (affine Miller loop over the plain binary expansion of 6t+2, Frobenius line corrections, plain (q^12-1)/r exponentiation over F_q[w]/(w^12+2)) computed from the reference coordinates of a*P1, b*P2; the standard's published vectors run first; non-trivial = a, b not both 1; distinct by (a, b, constructions)",
        required,
        enumerate: Some(enumerate),
        enumerate_note: "the SM9 standard's published vector e(P1,[ks]P2) and its r-th power (also checked against the oracle at start-up)",
        also_dbg: false,
        assumptions: super::TRUSTED,
        max_shrink_iters: 60,
    }
}

fn enumerate(_t: Tier) -> Vec<Vec<u8>> {
    vec![vec![0xFE]]
}

pub fn check(g: &[u8], ctx: &Ctx) -> Result<Info, Failure> {
    let mut s = Src::new(g);
    let mut info = Info::default();
    let mut key = Key::new();
    if g.first() == Some(&0xFE) {
        // the published vectors, against the library
        info.class("kat:published");
        info.nontrivial = true;
        key.s("kat");
        let ks = zp::hexn(KS_HEX);
        let rr = zp::hexn(KAT_R_HEX);
        let want_g = unhex(&KAT_G.replace(' ', "")).unwrap();
        let want_w = unhex(&KAT_W.replace(' ', "")).unwrap();
        if ctx.want_desc {
            info.desc = crate::runner::note(json!({"case": "published vector e(P1,[ks]P2) and e(P1,[ks]P2)^r", "ks": KS_HEX, "r": KAT_R_HEX}));
        }
        let pub_s = G2::one() * crate::gen::fr_of(&ks);
        for en in 0..3 {
            let gv = e(en, G1::one(), pub_s);
            ensure!(gv.to_slice().to_vec() == want_g, &format!("{}|published-vector", ENTRIES[en]), "{}: e(P1,[ks]P2) = {}.. differs from the standard's vector", ENTRIES[en], hex(&gv.to_slice()[..32]));
            let wv = gv.pow(crate::gen::fr_of(&rr));
            ensure!(wv.to_slice().to_vec() == want_w, &format!("{}|published-vector-pow", ENTRIES[en]), "{}: e(P1,[ks]P2)^r differs from the standard's vector", ENTRIES[en]);
        }
        info.key = key.done();
        return Ok(info);
    }
    let a = scalar_nonzero(&mut s).k;
    let b = scalar_nonzero(&mut s).k;
    let (cp, cq) = (s.choose(3), s.choose(3));
    let p: Pt<GA> = point(&mut s, &a, cp)?;
    let q: Pt<GB> = point(&mut s, &b, cq)?;
    info.class(format!("P:{}", p.rep.name()));
    info.class(format!("Q:{}", q.rep.name()));
    let one = BigUint::from(1u32);
    info.nontrivial = !(a == one && b == one);
    if p.rep == Rep::Affine && q.rep == Rep::Affine {
        info.class("both-affine");
    }
    key.big(&a).big(&b).s(&p.how).s(&q.how);
    if ctx.want_desc {
        info.desc = crate::runner::note(json!({"P": desc_pt(&p), "Q": desc_pt(&q)}));
    }
    let want = rf::pairing(&p.aff, &q.aff).to_sm9_bytes();
    if want.iter().all(|x| *x == 0) {
        fail!("oracle|zero", "reference pairing returned zero");
    }
    for en in 0..3 {
        let got = e(en, p.val, q.val).to_slice();
        if got[..] != want[..] {
            let first = (0..12).find(|i| got[i * 32..i * 32 + 32] != want[i * 32..i * 32 + 32]).unwrap();
            fail!(
                &format!("{}|differs-from-reference", ENTRIES[en]),
                "{}: e({:x}*P1 [{}], {:x}*P2 [{}]) differs from the textbook R-ate pairing; first differing 32-byte coefficient #{}: got {} want {}",
                ENTRIES[en], a, p.how, b, q.how, first, hex(&got[first * 32..first * 32 + 32]), hex(&want[first * 32..first * 32 + 32])
            );
        }
    }
    info.key = key.done();
    Ok(info)
}
