//! C03 — all pairing entry points agree and ignore the projective representative; a prepared G2 value is reusable.
use crate::gen::{fr_of, scalar};
use crate::grp::{desc_pt, point, Pt, GA, GB};
use crate::props::c01::{e, gt_hex, ENTRIES};
use crate::runner::{Ctx, Failure, Info, Key, PropDef};
use crate::src::Src;
use crate::ensure;
use num_bigint::BigUint;
use num_traits::Zero;
use serde_json::json;
use sm9_core::{pairing, G2Prepared, Group, Gt, G1, G2};

pub fn def() -> PropDef {
    let mut required = crate::runner::req(&["mode:inputs", "mode:history", "history:clone-used", "history:repeat", "history:clone_from-used", "history:clone_from-other-point"]);
    for a in ["affine", "libjac", "rescaled", "zero-canon", "zero-leftover", "zero-arb"] {
        for b in ["affine", "libjac", "rescaled", "zero-canon", "zero-leftover", "zero-arb"] {
            required.push(format!("cell:{}|{}", a, b));
        }
    }
    PropDef {
        id: "C03",
        check,
        genome_len: 1200,
        quick_cases: 10_000,
        thorough_cases: 500_000,
        rule: "two kinds of case. inputs: (k_P, rep_P, k_Q, rep_Q) over all 6x6 representation cells incl. the three identity forms: the three entry points must return byte-identical values, equal to the value for the canonical presentation (fresh one()*k, normalised) and to Gt::one() when either element is the identity. history: one prepared Q (any representation), 1..8 G1 inputs with independent values/representations, a call order of up to 16 calls with repetitions, clone() taken at random points and used interleaved, clone_from() into existing slots from values prepared from Q, from a second point Q2 (identity half of the time) or from other slots: every answer must equal pairing(P_i, Q), independent of position and of earlier calls. non-trivial = some operand non-normalised or identity, or >= 2 uses of one prepared value with distinct inputs; distinct by (scalars, constructions, call order)",
        required,
        enumerate: None,
        enumerate_note: "",
        also_dbg: false,
        assumptions: super::TRUSTED,
        max_shrink_iters: 200,
    }
}

fn canonical1(k: &BigUint) -> G1 {
    let mut p = G1::one() * fr_of(k);
    p.normalize();
    p
}
fn canonical2(k: &BigUint) -> G2 {
    let mut p = G2::one() * fr_of(k);
    p.normalize();
    p
}

pub fn check(g: &[u8], ctx: &Ctx) -> Result<Info, Failure> {
    let mut s = Src::new(g);
    let mut info = Info::default();
    let mut key = Key::new();
    let zero = BigUint::zero();
    if s.choose(4) != 0 {
        info.class("mode:inputs");
        // ---------------------------------------------------------------- inputs
        let (idp, idq) = (s.choose(4) == 0, s.choose(4) == 0);
        let (c, d) = (scalar(&mut s).k, scalar(&mut s).k);
        let (cp, cq) = (s.choose(3), s.choose(3));
        let p: Pt<GA> = point(&mut s, if idp { &zero } else { &c }, cp)?;
        let q: Pt<GB> = point(&mut s, if idq { &zero } else { &d }, cq)?;
        info.class(format!("cell:{}|{}", p.rep.name(), q.rep.name()));
        info.nontrivial = cp != 0 || cq != 0 || p.rep.is_identity() || q.rep.is_identity();
        key.s("inputs").big(&p.k).big(&q.k).s(&p.how).s(&q.how);
        if ctx.want_desc {
            info.desc = crate::runner::note(json!({"mode": "inputs", "P": desc_pt(&p), "Q": desc_pt(&q)}));
        }
        let vals: Vec<Gt> = (0..3).map(|en| e(en, p.val, q.val)).collect();
        let ident = p.k.is_zero() || q.k.is_zero();
        let ic = if !ident { "none".to_string() } else if p.k.is_zero() && q.k.is_zero() { "both".to_string() } else if p.k.is_zero() { format!("g1-{}", p.rep.name()) } else { format!("g2-{}", q.rep.name()) };
        // value for the canonical presentation of the same two elements
        let canon = pairing(canonical1(&p.k), canonical2(&q.k));
        for en in 0..3 {
            if ident {
                ensure!(vals[en] == Gt::one(), &format!("{}|identity-not-one|{}", ENTRIES[en], ic), "{}: value {} for an identity argument (P: k={:x} {} = {}; Q: k={:x} {} = {})", ENTRIES[en], gt_hex(&vals[en]), p.k, p.how, crate::conv::show_g1(&p.val), q.k, q.how, crate::conv::show_g2(&q.val));
            }
            ensure!(vals[en].to_slice()[..] == canon.to_slice()[..], &format!("{}|depends-on-representative|{}", ENTRIES[en], ic), "{}: value {} differs from the value {} for the normalised presentation of the same elements (P: k={:x} {}; Q: k={:x} {})", ENTRIES[en], gt_hex(&vals[en]), gt_hex(&canon), p.k, p.how, q.k, q.how);
            ensure!(vals[en].to_slice()[..] == vals[0].to_slice()[..] && vals[en] == vals[0], &format!("{}|entry-points-disagree", ENTRIES[en]), "{} = {} but pairing = {}", ENTRIES[en], gt_hex(&vals[en]), gt_hex(&vals[0]));
        }
        // same element, second independent representative: same value
        let (cp2, cq2) = (s.choose(3), s.choose(3));
        let p2: Pt<GA> = point(&mut s, &p.k, cp2)?;
        let q2: Pt<GB> = point(&mut s, &q.k, cq2)?;
        for en in 0..3 {
            let v2 = e(en, p2.val, q2.val);
            ensure!(v2.to_slice()[..] == vals[0].to_slice()[..], &format!("{}|depends-on-representative|{}", ENTRIES[en], ic), "{}: second representatives ({} / {}) give {} instead of {}", ENTRIES[en], p2.how, q2.how, gt_hex(&v2), gt_hex(&vals[0]));
        }
    } else {
        info.class("mode:history");
        // ---------------------------------------------------------------- histories on one prepared value
        let d = if s.choose(6) == 0 { zero.clone() } else { scalar(&mut s).k };
        let cq = s.choose(3);
        let q: Pt<GB> = point(&mut s, &d, cq)?;
        let n = 1 + s.choose(8);
        let mut ps: Vec<Pt<GA>> = vec![];
        for _ in 0..n {
            let c = if s.choose(8) == 0 { zero.clone() } else { scalar(&mut s).k };
            let cp = s.choose(3);
            ps.push(point(&mut s, &c, cp)?);
        }
        let expected: Vec<Gt> = ps.iter().map(|p| pairing(p.val, q.val)).collect();
        if ctx.want_desc {
            crate::runner::note(json!({"mode": "history", "Q": desc_pt(&q), "inputs": ps.iter().map(desc_pt).collect::<Vec<_>>()}));
        }
        let mut prepared: Vec<G2Prepared> = vec![G2Prepared::from(q.val)];
        let mut owner: Vec<usize> = vec![0];
        let mut q2: Option<Pt<GB>> = None;
        let mut expected2: Vec<Gt> = vec![];
        let mut clone_from_used = false;
        let calls = 1 + s.choose(16);
        let mut order: Vec<(usize, usize)> = vec![];
        let mut used: std::collections::BTreeSet<usize> = Default::default();
        let mut clone_used = false;
        let mut repeat = false;
        key.s("history").big(&q.k).s(&q.how);
        for p in ps.iter() {
            key.big(&p.k).s(&p.how);
        }
        for step in 0..calls {
            if s.choose(4) == 0 && prepared.len() < 4 {
                let src = s.choose(prepared.len());
                let c = prepared[src].clone();
                prepared.push(c);
                owner.push(owner[src]);
                key.s("clone").n(src as u64);
            }
            if s.choose(6) == 0 {
                // Clone::clone_from into an existing slot (a type may override it): from a fresh value prepared from a second
                // point Q2 (identity half of the time), from a fresh value of Q, or from another slot
                if q2.is_none() {
                    let d2 = if s.bool() { zero.clone() } else { scalar(&mut s).k };
                    let c2 = s.choose(3);
                    let qq: Pt<GB> = point(&mut s, &d2, c2)?;
                    expected2 = ps.iter().map(|p| pairing(p.val, qq.val)).collect();
                    q2 = Some(qq);
                }
                let dst = s.choose(prepared.len());
                let (srcv, so) = match s.choose(3) {
                    0 => (G2Prepared::from(q2.as_ref().unwrap().val), 1usize),
                    1 => (G2Prepared::from(q.val), 0usize),
                    _ => {
                        let j = s.choose(prepared.len());
                        (prepared[j].clone(), owner[j])
                    }
                };
                prepared[dst].clone_from(&srcv);
                if owner[dst] != so {
                    info.class("history:clone_from-other-point");
                }
                owner[dst] = so;
                clone_from_used = true;
                key.s("clone_from").n(dst as u64).n(so as u64);
            }
            let which = s.choose(prepared.len());
            let i = s.choose(n);
            if which > 0 {
                clone_used = true;
            }
            if !used.insert(i) {
                repeat = true;
            }
            order.push((which, i));
            key.n(which as u64).n(i as u64);
            let got = prepared[which].pairing(&ps[i].val);
            let (q, expected) = if owner[which] == 0 { (&q, &expected) } else { (q2.as_ref().unwrap(), &expected2) };
            let ic = if ps[i].k.is_zero() && q.k.is_zero() { "both".to_string() } else if ps[i].k.is_zero() { format!("g1-{}", ps[i].rep.name()) } else if q.k.is_zero() { format!("g2-{}", q.rep.name()) } else { "none".into() };
            if ic != "none" {
                ensure!(got == Gt::one(), &format!("G2Prepared::pairing|identity-not-one|{}", ic), "prepared pairing with an identity argument = {} (call {}; P: k={:x} {}; Q: k={:x} {})", gt_hex(&got), step, ps[i].k, ps[i].how, q.k, q.how);
            }
            ensure!(
                got.to_slice()[..] == expected[i].to_slice()[..],
                &format!("G2Prepared::pairing|history|{}", ic),
                "call {} on prepared value #{} with input #{} (k={:x} {}) = {} but pairing(P,Q) = {} (Q: k={:x} {}; order so far {:?})",
                step, which, i, ps[i].k, ps[i].how, gt_hex(&got), gt_hex(&expected[i]), q.k, q.how, order
            );
        }
        if clone_used {
            info.class("history:clone-used");
        }
        if clone_from_used {
            info.class("history:clone_from-used");
        }
        if repeat {
            info.class("history:repeat");
        }
        info.class(format!("history:Q-{}", q.rep.name()));
        info.nontrivial = used.len() >= 2 || q.rep.is_identity() || cq != 0;
        if ctx.want_desc {
            info.desc = crate::runner::note(json!({"mode": "history", "Q": desc_pt(&q), "inputs": ps.iter().map(desc_pt).collect::<Vec<_>>(), "calls(prepared#, input#)": format!("{:?}", order)}));
        }
    }
    info.key = key.done();
    Ok(info)
}
