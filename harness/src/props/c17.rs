//! C17 — the F_q^12 tower engine and final exponentiation are correct on every element (via hooks).
//! Oracle: F_q[w]/(w^12+2) in the polynomial basis (schoolbook product, Gaussian-elimination inverse, literal
//! powering for Frobenius and exponentiation); tower coefficient (k, j, i) <-> w^(k + 3j + 6i).
use crate::conv::*;
use crate::gen::{felt, mont_of, mont_pre_sum, scalar, scalar_nonzero, Md};
use crate::grp::{point, Pt, GA, GB};
use crate::rf::{self, Fld, F, P12, R2};
use crate::runner::{Ctx, Failure, Info, Key, PropDef};
use crate::src::{hex, Src};
use crate::zp;
use crate::{ensure, fail};
use num_bigint::BigUint;
use num_traits::Zero;
use serde_json::json;
use sm9_core::verif_hooks::{self as hk, T12, T4};
use sm9_core::{G2Prepared, Group};

pub fn def() -> PropDef {
    PropDef {
        id: "C17",
        check,
        genome_len: 1100,
        quick_cases: 100_000,
        thorough_cases: 3_200_000,
        rule: "case = one operation of the internal tower on generated elements: Fq4 {add, sub, neg, double, triple, mul, mul_1 (b.c0=0), squared, inverse, the eight internal Frobenius codes, scale, scale_fq, mul_by_nonresidue, unitary_inverse, to_slice}, Fq12 {add, sub, neg, double, triple, mul, mul_015 (sparse right operand), squared, inverse, frobenius 1/2/3/6, scale, mul_by_nonresidue, pow(u128) with exponents {0,1,2,9,SM9_S,SM9_A2,SM9_A3,2^k,uniform}, pow(Fr), to_slice}, the four-term interleaved sum of products with its carry class computed in the model, both final exponentiations (vs. plain x^((q^12-1)/r)), and both Miller loops; elements from coefficient vectors: uniform, sparse (1-2 non-zero), subfield (Fq, Fq2, Fq4, Fq6), unitary (x^(q^6-1) image) and zero, coefficients from the limb-boundary classes; non-trivial = element not in {0,1} and not a pairing value; distinct by (operation, operands)",
        required: crate::runner::req(&[
            "kind:fq4", "kind:fq12", "kind:sop4", "kind:pow", "kind:finalexp", "kind:miller", "elem:uniform", "elem:sparse", "elem:subfield", "elem:unitary", "elem:zero", "elem:const-plus-sparse", "sop4:carry0", "sop4:carry1",
            "sop4:carry2", "frob4:10", "frob4:11", "frob4:12", "frob4:21", "frob4:22", "frob4:30", "frob4:31", "frob4:32", "frob12:1", "frob12:2", "frob12:3", "frob12:6", "pow:chain-exponent",
            "finalexp:zero", "finalexp:nonunitary",
        ]),
        enumerate: None,
        enumerate_note: "",
        also_dbg: false,
        assumptions: super::TRUSTED,
        max_shrink_iters: 150,
    }
}

pub const SM9_S: u128 = 0x600000000058F98A;
pub const SM9_A2: u128 = 0xd8000000019062ed0000b98b0cb27659;
pub const SM9_A3: u128 = 0x2400000000215d941;

// ------------------------------------------------------------------------------------------ conversions
fn fq2_at(p: &P12, deg0: usize) -> sm9_core::Fq2 {
    // real part at w^deg0, imaginary at w^(deg0+6)
    fq2_of_r2(&R2::new(p.0[deg0], p.0[deg0 + 6]))
}
fn t4_at(p: &P12, k: usize) -> T4 {
    T4::new(fq2_at(p, k), fq2_at(p, k + 3))
}
pub fn t12_of(p: &P12) -> T12 {
    T12::new(t4_at(p, 0), t4_at(p, 1), t4_at(p, 2))
}
pub fn p12_of(t: &T12) -> P12 {
    let mut c = [<F as Fld>::zero(); 12];
    let parts = [t.c0(), t.c1(), t.c2()];
    for (k, f4) in parts.iter().enumerate() {
        for (j, f2) in [f4.c0(), f4.c1()].iter().enumerate() {
            let r = r2_of_fq2(f2);
            c[k + 3 * j] = r.a;
            c[k + 3 * j + 6] = r.b;
        }
    }
    P12(c)
}
/// Fq4 element <-> polynomial supported on w^0, w^3, w^6, w^9
fn t4_of(p: &P12) -> T4 {
    t4_at(p, 0)
}
fn p12_of_t4(t: &T4) -> P12 {
    let mut c = [<F as Fld>::zero(); 12];
    for (j, f2) in [t.c0(), t.c1()].iter().enumerate() {
        let r = r2_of_fq2(f2);
        c[3 * j] = r.a;
        c[3 * j + 6] = r.b;
    }
    P12(c)
}
fn show12(p: &P12) -> String {
    let parts: Vec<String> = p.0.iter().enumerate().filter(|(_, c)| !Fld::is_zero(*c)).map(|(i, c)| format!("{}*w^{}", show_f(c).trim_start_matches('0'), i)).collect();
    if parts.is_empty() {
        "0".into()
    } else {
        parts.join(" + ")
    }
}

// ------------------------------------------------------------------------------------------ element generators
fn coef(s: &mut Src) -> F {
    rf::f_from_big(&felt(s, Md::Q).v)
}
/// element of F_q^12 supported on the exponents in `support`
fn elem_on(s: &mut Src, support: &[usize], info: &mut Info) -> P12 {
    let mut c = [<F as Fld>::zero(); 12];
    match s.weighted(&[6, 3, 4, 2, 1, 3]) {
        5 => {
            // a small constant (1, -1, 2, 0, small) at w^0 plus one or two other coefficients: the shape of line
            // functions and of "is this one?" fast paths
            info.class("elem:const-plus-sparse");
            c[0] = match s.choose(5) {
                0 | 1 => <F as Fld>::one(),
                2 => <F as Fld>::one().neg(),
                3 => F::from(2u64),
                _ => F::from(s.choose(9) as u64),
            };
            for _ in 0..(1 + s.choose(2)) {
                let i = support[s.choose(support.len())];
                if i != 0 {
                    c[i] = coef(s);
                }
            }
        }
        0 => {
            info.class("elem:uniform");
            for &i in support {
                c[i] = coef(s);
            }
        }
        1 => {
            info.class("elem:sparse");
            for _ in 0..(1 + s.choose(2)) {
                let i = support[s.choose(support.len())];
                c[i] = coef(s);
            }
        }
        2 => {
            info.class("elem:subfield");
            // Fq, Fq2 (w^6), Fq4 (w^3), Fq6 (w^2) embedded, intersected with the support
            let step = [12usize, 6, 3, 2][s.choose(4)];
            for &i in support {
                if i % step == 0 {
                    c[i] = coef(s);
                }
            }
        }
        3 => {
            info.class("elem:unitary");
            // x^(q^6 - 1) for a uniform x (norm 1 over F_q^6); only meaningful on the full support
            for &i in support {
                c[i] = coef(s);
            }
            let x = P12(c);
            if support.len() == 12 {
                if let Some(xi) = x.inv() {
                    return x.frob_img(6).mul(&xi);
                }
            }
            return x;
        }
        _ => {
            info.class("elem:zero");
        }
    }
    P12(c)
}
const FULL: [usize; 12] = [0, 1, 2, 3, 4, 5, 6, 7, 8, 9, 10, 11];
const SUB4: [usize; 4] = [0, 3, 6, 9];

macro_rules! eq12 {
    ($got:expr, $want:expr, $sig:expr, $($arg:tt)*) => {{
        let g = p12_of(&$got);
        let w: P12 = $want;
        if g != w {
            return Err(Failure::new($sig, format!("{}: got [{}] want [{}]", format!($($arg)*), show12(&g), show12(&w))));
        }
    }};
}
macro_rules! eq4 {
    ($got:expr, $want:expr, $sig:expr, $($arg:tt)*) => {{
        let g = p12_of_t4(&$got);
        let w: P12 = $want;
        if g != w {
            return Err(Failure::new($sig, format!("{}: got [{}] want [{}]", format!($($arg)*), show12(&g), show12(&w))));
        }
    }};
}

fn in_sub4(p: &P12) -> bool {
    (0..12).all(|i| i % 3 == 0 || Fld::is_zero(&p.0[i]))
}

fn check_fq4(s: &mut Src, info: &mut Info, key: &mut Key, ctx: &Ctx) -> Result<(), Failure> {
    let a = elem_on(s, &SUB4, info);
    let b = elem_on(s, &SUB4, info);
    let (ta, tb) = (t4_of(&a), t4_of(&b));
    let op = s.choose(17);
    key.s("fq4").n(op as u64).b(&a.to_sm9_bytes()).b(&b.to_sm9_bytes());
    if ctx.want_desc {
        crate::runner::note(json!({"kind": "Fq4", "op": op, "a": show12(&a), "b": show12(&b)}));
    }
    info.nontrivial = !Fld::is_zero(&a) && a != P12::one();
    // the conversion itself must round-trip (guards the harness)
    if p12_of_t4(&ta) != a {
        fail!("harness|t4-roundtrip", "T4 conversion does not round-trip");
    }
    let v = P12::monomial(<F as Fld>::one(), 3);
    match op {
        0 => eq4!(ta.add(&tb), a.add(&b), "fq4-add|value", "Fq4 add"),
        1 => eq4!(ta.sub(&tb), a.sub(&b), "fq4-sub|value", "Fq4 sub"),
        2 => eq4!(ta.neg(), a.neg(), "fq4-neg|value", "Fq4 neg"),
        3 => eq4!(ta.double(), a.add(&a), "fq4-double|value", "Fq4 double"),
        4 => eq4!(ta.triple(), a.add(&a).add(&a), "fq4-triple|value", "Fq4 triple"),
        5 => eq4!(ta.mul(&tb), a.mul(&b), "fq4-mul|value", "Fq4 mul [{}]*[{}]", show12(&a), show12(&b)),
        6 => {
            // mul_1 is specified for b.c0 == 0: clear the w^0, w^6 coefficients of b
            let mut b1 = b;
            b1.0[0] = <F as Fld>::zero();
            b1.0[6] = <F as Fld>::zero();
            eq4!(ta.mul_1(&t4_of(&b1)), a.mul(&b1), "fq4-mul_1|value", "Fq4 mul_1 [{}]*[{}]", show12(&a), show12(&b1));
        }
        7 => {
            eq4!(ta.squared(), a.mul(&a), "fq4-squared|value", "Fq4 squared [{}]", show12(&a));
            ensure!(ta.squared() == ta.mul(&ta), "fq4-squared|vs-mul", "Fq4 squared != mul");
        }
        8 => match (ta.inverse(), a.inv()) {
            (None, None) => {}
            (Some(i), Some(w)) => eq4!(i, w, "fq4-inverse|value", "Fq4 inverse [{}]", show12(&a)),
            (None, Some(_)) => fail!("fq4-inverse|none-for-nonzero", "Fq4 inverse([{}]) = None", show12(&a)),
            (Some(i), None) => fail!("fq4-inverse|some-for-zero", "Fq4 inverse(0) = Some([{}])", show12(&p12_of_t4(&i))),
        },
        9 | 10 => {
            // internal Frobenius code "jk": the map the Fq12 Frobenius^j induces on the coefficient of w^k
            let codes = [10usize, 11, 12, 21, 22, 30, 31, 32];
            let code = codes[s.choose(8)];
            info.class(format!("frob4:{}", code));
            let (j, k) = (code / 10, code % 10);
            let wk = P12::monomial(<F as Fld>::one(), k);
            let img = a.mul(&wk).frob_img(j as u32);
            // img must be y' * w^k with y' in Fq4
            let wki = wk.inv().unwrap();
            let yp = img.mul(&wki);
            if !in_sub4(&yp) {
                fail!("oracle|frob4", "reference Frobenius image is not of the form y'*w^k");
            }
            eq4!(ta.frobenius(code), yp, &format!("fq4-frobenius|{}", code), "Fq4 frobenius code {} on [{}]", code, show12(&a));
        }
        11 => {
            let by = R2::new(coef(s), coef(s));
            eq4!(ta.scale(&fq2_of_r2(&by)), a.mul(&P12::from_r2(&by)), "fq4-scale|value", "Fq4 scale");
        }
        12 => {
            let by = coef(s);
            eq4!(ta.scale_fq(&fq_of_f(&by)), a.mul(&P12::from_f(by)), "fq4-scale_fq|value", "Fq4 scale_fq");
        }
        13 => eq4!(ta.mul_by_nonresidue(), a.mul(&v), "fq4-mul_by_nonresidue|value", "Fq4 * v"),
        14 => {
            // d0 - d1 v
            let mut c = a;
            c.0[3] = -c.0[3];
            c.0[9] = -c.0[9];
            eq4!(ta.unitary_inverse(), c, "fq4-unitary_inverse|value", "Fq4 conj");
        }
        15 => {
            // to_slice: c1 | c0, each as imaginary | real
            let mut want = vec![];
            for d in [9usize, 3, 6, 0] {
                want.extend_from_slice(&rf::f_to_be(&a.0[d]));
            }
            ensure!(ta.to_slice()[..] == want[..], "fq4-to_slice|layout", "Fq4 to_slice = {} want {}", hex(&ta.to_slice()), hex(&want));
        }
        _ => {
            ensure!(ta.is_zero() == Fld::is_zero(&a), "fq4-is_zero|value", "Fq4 is_zero");
            ensure!((ta == tb) == (a == b), "fq4-eq|value", "Fq4 ==");
            // ring laws
            let c = elem_on(s, &SUB4, info);
            let tc = t4_of(&c);
            ensure!(ta.mul(&tb) == tb.mul(&ta), "fq4-law|commutative", "Fq4 ab != ba");
            ensure!(ta.mul(&tb).mul(&tc) == ta.mul(&tb.mul(&tc)), "fq4-law|associative", "Fq4 (ab)c != a(bc)");
            ensure!(ta.mul(&tb.add(&tc)) == ta.mul(&tb).add(&ta.mul(&tc)), "fq4-law|distributive", "Fq4 a(b+c) != ab+ac");
        }
    }
    Ok(())
}

fn check_fq12(s: &mut Src, info: &mut Info, key: &mut Key, ctx: &Ctx) -> Result<(), Failure> {
    let a = elem_on(s, &FULL, info);
    let b = elem_on(s, &FULL, info);
    let (ta, tb) = (t12_of(&a), t12_of(&b));
    let op = s.choose(17);
    key.s("fq12").n(op as u64).b(&a.to_sm9_bytes()).b(&b.to_sm9_bytes());
    if ctx.want_desc {
        crate::runner::note(json!({"kind": "Fq12", "op": op, "a": show12(&a), "b": show12(&b)}));
    }
    info.nontrivial = !Fld::is_zero(&a) && a != P12::one();
    if p12_of(&ta) != a {
        fail!("harness|t12-roundtrip", "T12 conversion does not round-trip");
    }
    match op {
        0 => eq12!(ta.add(&tb), a.add(&b), "fq12-add|value", "Fq12 add"),
        1 => eq12!(ta.sub(&tb), a.sub(&b), "fq12-sub|value", "Fq12 sub"),
        2 => {
            eq12!(ta.neg(), a.neg(), "fq12-neg|value", "Fq12 neg");
            eq12!(ta.double(), a.add(&a), "fq12-double|value", "Fq12 double");
            eq12!(ta.triple(), a.add(&a).add(&a), "fq12-triple|value", "Fq12 triple");
        }
        3 | 4 => {
            eq12!(ta.mul(&tb), a.mul(&b), "fq12-mul|value", "Fq12 mul [{}]*[{}]", show12(&a), show12(&b));
        }
        5 | 6 => {
            // mul_015: right operand with c1 = 0 and c2 = (0, *): support w^0,w^3,w^6,w^9 (c0) and w^5,w^11 (c2.c1)
            let mut bs = [<F as Fld>::zero(); 12];
            for i in [0usize, 3, 6, 9, 5, 11] {
                bs[i] = b.0[i];
            }
            if op == 6 {
                // the shape the Miller loop produces: c0 = (x, y), c2 = (0, z) with further zeros allowed
                if s.bool() {
                    bs[3] = <F as Fld>::zero();
                    bs[9] = <F as Fld>::zero();
                }
            }
            let bsp = P12(bs);
            eq12!(ta.mul_015(&t12_of(&bsp)), a.mul(&bsp), "fq12-mul_015|value", "Fq12 mul_015 [{}]*[{}]", show12(&a), show12(&bsp));
        }
        7 | 8 => {
            eq12!(ta.squared(), a.mul(&a), "fq12-squared|value", "Fq12 squared [{}]", show12(&a));
            ensure!(ta.squared() == ta.mul(&ta), "fq12-squared|vs-mul", "Fq12 squared != mul");
        }
        9 | 10 => match (ta.inverse(), a.inv()) {
            (None, None) => {}
            (Some(i), Some(w)) => {
                eq12!(i, w, "fq12-inverse|value", "Fq12 inverse [{}]", show12(&a));
            }
            (None, Some(_)) => fail!("fq12-inverse|none-for-nonzero", "Fq12 inverse([{}]) = None", show12(&a)),
            (Some(i), None) => fail!("fq12-inverse|some-for-zero", "Fq12 inverse(0) = Some([{}])", show12(&p12_of(&i))),
        },
        11 | 12 => {
            let k = [1usize, 2, 3, 6][s.choose(4)];
            info.class(format!("frob12:{}", k));
            // literal x^(q^k) on sparse inputs is cheap enough only through the images; both agree (self-test)
            eq12!(ta.frobenius(k), a.frob_img(k as u32), &format!("fq12-frobenius|{}", k), "Fq12 frobenius^{} on [{}]", k, show12(&a));
        }
        13 => {
            let by = elem_on(s, &SUB4, info);
            eq12!(ta.scale(&t4_of(&by)), a.mul(&by), "fq12-scale|value", "Fq12 scale by Fq4");
        }
        14 => eq12!(ta.mul_by_nonresidue(), a.mul(&P12::w()), "fq12-mul_by_nonresidue|value", "Fq12 * w"),
        15 => {
            ensure!(ta.to_slice()[..] == a.to_sm9_bytes()[..], "fq12-to_slice|layout", "Fq12 to_slice = {}.. want {}..", hex(&ta.to_slice()[..32]), hex(&a.to_sm9_bytes()[..32]));
            ensure!(ta.into_gt().to_slice()[..] == a.to_sm9_bytes()[..], "gt-to_slice|layout", "Gt to_slice differs");
            ensure!(ta.is_zero() == Fld::is_zero(&a), "fq12-is_zero|value", "Fq12 is_zero");
            ensure!((ta == tb) == (a == b) && (ta.into_gt() == tb.into_gt()) == (a == b), "fq12-eq|value", "Fq12 ==");
        }
        _ => {
            let c = elem_on(s, &FULL, info);
            let tc = t12_of(&c);
            ensure!(ta.mul(&tb) == tb.mul(&ta), "fq12-law|commutative", "Fq12 ab != ba");
            ensure!(ta.mul(&tb).mul(&tc) == ta.mul(&tb.mul(&tc)), "fq12-law|associative", "Fq12 (ab)c != a(bc)");
            ensure!(ta.mul(&tb.add(&tc)) == ta.mul(&tb).add(&ta.mul(&tc)), "fq12-law|distributive", "Fq12 a(b+c) != ab+ac");
        }
    }
    Ok(())
}

fn check_sop4(s: &mut Src, info: &mut Info, key: &mut Key, ctx: &Ctx) -> Result<(), Failure> {
    let q = zp::q();
    let top = s.choose(3) == 0;
    let mut a = vec![];
    let mut b = vec![];
    for _ in 0..4 {
        for v in [&mut a, &mut b] {
            let x = if top {
                // stored value close to q-1: canonical = stored * R^-1
                let d = BigUint::from(s.u64());
                ((q - 1u32 - d) * &zp::c().rinv_q) % q
            } else {
                felt(s, Md::Q).v
            };
            v.push(x);
        }
    }
    key.s("sop4");
    for x in a.iter().chain(b.iter()) {
        key.big(x);
    }
    if ctx.want_desc {
        crate::runner::note(json!({"kind": "sum_of_products4", "a": a.iter().map(zp::hexs).collect::<Vec<_>>(), "b": b.iter().map(zp::hexs).collect::<Vec<_>>()}));
    }
    let terms: Vec<(BigUint, BigUint)> = (0..4).map(|i| (mont_of(&a[i], Md::Q), mont_of(&b[i], Md::Q))).collect();
    let u = mont_pre_sum(&terms, Md::Q);
    let class = (&u >> 256u32).to_u64_digits().first().copied().unwrap_or(0);
    info.class(format!("sop4:carry{}", class));
    info.nontrivial = true;
    let mut want = BigUint::zero();
    for i in 0..4 {
        want = (want + &a[i] * &b[i]) % q;
    }
    let la = [fq_of_big(&a[0]), fq_of_big(&a[1]), fq_of_big(&a[2]), fq_of_big(&a[3])];
    let lb = [fq_of_big(&b[0]), fq_of_big(&b[1]), fq_of_big(&b[2]), fq_of_big(&b[3])];
    let got = big_of_fq(&hk::fq_sum_of_products4(&la, &lb));
    ensure!(got == want, &format!("sum_of_products4|value|carry{}", class), "sum_of_products4 = {:x} want {:x} (pre-subtraction carry class {})", got, want, class);
    Ok(())
}

fn check_pow(s: &mut Src, info: &mut Info, key: &mut Key, ctx: &Ctx) -> Result<(), Failure> {
    let a = elem_on(s, &FULL, info);
    let ta = t12_of(&a);
    let (e, cls): (u128, &str) = match s.weighted(&[4, 5, 3, 4]) {
        0 => ([0u128, 1, 2, 3, 9, 4, 8][s.choose(7)], "small"),
        1 => ([SM9_S, SM9_A2, SM9_A3, 9][s.choose(4)], "chain-exponent"),
        2 => {
            let k = s.choose(128) as u32;
            ([1u128 << k, (1u128 << k).wrapping_sub(1), (1u128 << k) | 1][s.choose(3)], "pow2")
        }
        _ => (s.u128() >> (s.choose(128) as u32), "uniform"),
    };
    info.class(format!("pow:{}", cls));
    info.nontrivial = !Fld::is_zero(&a) && a != P12::one() && e > 1;
    key.s("pow").b(&a.to_sm9_bytes()).b(&e.to_be_bytes());
    if ctx.want_desc {
        crate::runner::note(json!({"kind": "Fq12 pow(u128)", "a": show12(&a), "exp": format!("{:x}", e), "class": cls}));
    }
    let want = a.pow(&BigUint::from(e));
    eq12!(ta.pow_u128(e), want, &format!("fq12-pow_u128|{}", cls), "Fq12 pow([{}], {:x})", show12(&a), e);
    // exponentiation by an Fr scalar (what Gt::pow uses), on arbitrary elements
    let k = scalar(s).k;
    let want = a.pow(&k);
    eq12!(ta.pow_fr(crate::gen::fr_of(&k)), want, "fq12-pow_fr|value", "Fq12 pow_fr([{}], {:x})", show12(&a), k);
    // NOTE: the public Gt wrapper (Gt::mul / inverse / pow) is deliberately NOT compared on arbitrary elements: Gt only ever
    // holds pairing values (unitary, cyclotomic), so a wrapper that uses the conjugate as inverse or cyclotomic squarings
    // is correct for everything the API can produce. Gt on pairing values is C11's subject.
    Ok(())
}

fn check_finalexp(s: &mut Src, info: &mut Info, key: &mut Key, ctx: &Ctx) -> Result<(), Failure> {
    let a = elem_on(s, &FULL, info);
    let ta = t12_of(&a);
    key.s("finalexp").b(&a.to_sm9_bytes());
    if ctx.want_desc {
        crate::runner::note(json!({"kind": "final exponentiation", "a": show12(&a)}));
    }
    info.nontrivial = !Fld::is_zero(&a) && a != P12::one();
    let (f1, f2) = (ta.final_exponentiation(), ta.final_exp());
    if Fld::is_zero(&a) {
        info.class("finalexp:zero");
        ensure!(f1.is_none() && f2.is_none(), "final-exp|some-for-zero", "final exponentiation of 0 is Some");
        ensure!(ta.first_chunk().is_none(), "first-chunk|some-for-zero", "first chunk of 0 is Some");
        return Ok(());
    }
    let unit = a.frob_img(6).mul(&a) == P12::one();
    info.class(if unit { "finalexp:unitary" } else { "finalexp:nonunitary" });
    let want = rf::final_exp(&a);
    match (f1, f2) {
        (Some(x), Some(y)) => {
            eq12!(x, want, "final_exponentiation|value", "final_exponentiation([{}]) != x^((q^12-1)/r)", show12(&a));
            eq12!(y, want, "final_exp|value", "final_exp([{}]) != x^((q^12-1)/r)", show12(&a));
            ensure!(x == y, "final-exp|routines-disagree", "the two final exponentiation routines disagree");
        }
        _ => fail!("final-exp|none-for-nonzero", "final exponentiation returned None for a non-zero element [{}]", show12(&a)),
    }
    // first chunk = x^((q^6-1)(q^2+1))
    let q = zp::q();
    let e1 = (q.pow(6) - 1u32) * (q.pow(2) + 1u32);
    match ta.first_chunk() {
        Some(c) => eq12!(c, a.pow(&e1), "first-chunk|value", "first chunk of [{}]", show12(&a)),
        None => fail!("first-chunk|none-for-nonzero", "first chunk None for non-zero"),
    }
    Ok(())
}

fn check_miller(s: &mut Src, info: &mut Info, key: &mut Key, ctx: &Ctx) -> Result<(), Failure> {
    let a = scalar_nonzero(s).k;
    let b = scalar_nonzero(s).k;
    let (cp, cq) = (s.choose(3), s.choose(3));
    let p: Pt<GA> = point(s, &a, cp)?;
    let q: Pt<GB> = point(s, &b, cq)?;
    key.s("miller").big(&a).big(&b).s(&p.how).s(&q.how);
    if ctx.want_desc {
        crate::runner::note(json!({"kind": "Miller loops", "a": zp::hexs(&a), "b": zp::hexs(&b), "P": p.how, "Q": q.how}));
    }
    info.nontrivial = true;
    // the pairing entry points call the Miller loops on affine-normalised arguments
    let (mut pn, mut qn) = (p.val, q.val);
    pn.normalize();
    qn.normalize();
    let mj = hk::miller_loop_jacobian(&qn, &pn);
    let prep = G2Prepared::from(q.val);
    let mp = hk::miller_loop_prepared(&prep, &pn);
    let want = rf::pairing(&p.aff, &q.aff);
    let combos = [("FE1(ML_jac)", mj.final_exponentiation()), ("FE2(ML_jac)", mj.final_exp()), ("FE1(ML_prep)", mp.final_exponentiation()), ("FE2(ML_prep)", mp.final_exp())];
    for (n, v) in combos.iter() {
        match v {
            Some(x) => eq12!(*x, want, &format!("miller|{}", n), "{} != reference pairing for a={:x} b={:x}", n, a, b),
            None => fail!(&format!("miller|{}-none", n), "{} is None", n),
        }
    }
    // the two Miller values differ only by a factor the final exponentiation removes
    let (pj, pp) = (p12_of(&mj), p12_of(&mp));
    let quot = pj.mul(&pp.inv().ok_or_else(|| Failure::new("miller|prepared-zero", "prepared Miller loop returned 0".into()))?);
    if rf::final_exp(&quot) != P12::one() {
        fail!("miller|quotient", "ML_jac / ML_prep is not killed by the final exponentiation");
    }
    // and agree with the reference Miller function up to such a factor
    let mref = rf::miller(&p.aff.unwrap(), &q.aff.unwrap());
    if rf::final_exp(&pj.mul(&mref.inv().unwrap())) != P12::one() {
        fail!("miller|vs-reference", "ML_jac / reference Miller function is not killed by the final exponentiation");
    }
    Ok(())
}

pub fn check(g: &[u8], ctx: &Ctx) -> Result<Info, Failure> {
    let mut s = Src::new(g);
    let mut info = Info::default();
    let mut key = Key::new();
    // weights reflect cost: field ops are microseconds, final exponentiation ~40 ms, Miller loops ~100 ms
    match s.weighted(&[300, 300, 250, 120, 20, 10]) {
        0 => {
            info.class("kind:fq4");
            check_fq4(&mut s, &mut info, &mut key, ctx)?
        }
        1 => {
            info.class("kind:fq12");
            check_fq12(&mut s, &mut info, &mut key, ctx)?
        }
        2 => {
            info.class("kind:sop4");
            check_sop4(&mut s, &mut info, &mut key, ctx)?
        }
        3 => {
            info.class("kind:pow");
            check_pow(&mut s, &mut info, &mut key, ctx)?
        }
        4 | 5 if ctx.fuzz => {
            // tens of milliseconds per case: left to the proptest tiers
            info.class("kind:skipped-in-fuzz");
        }
        4 => {
            info.class("kind:finalexp");
            check_finalexp(&mut s, &mut info, &mut key, ctx)?
        }
        _ => {
            info.class("kind:miller");
            check_miller(&mut s, &mut info, &mut key, ctx)?
        }
    }
    info.key = key.done();
    if ctx.want_desc {
        info.desc = crate::runner::take_note().map(|v| {
            crate::runner::note(v.clone());
            v
        });
    }
    Ok(info)
}
