//! C14 — square roots are sound and complete in Fq and Fq2.
use crate::conv::*;
use crate::gen::{felt, scalar_nonzero, Md};
use crate::props::c12::{fq2_operand, m_mul};
use crate::rf::{self, Fld, R2};
use crate::runner::{Ctx, Failure, Info, Key, PropDef};
use crate::src::{hex, Src};
use crate::zp;
use crate::{ensure, fail};
use num_bigint::BigUint;
use num_traits::{One, Zero};
use serde_json::json;
use sm9_core::{Fq2, G1, G2};

pub fn def() -> PropDef {
    PropDef {
        id: "C14",
        check,
        genome_len: 300,
        quick_cases: 400_000,
        thorough_cases: 16_000_000,
        rule: "case = one sqrt input: Fq (squares of arbitrary elements, square*2 non-residues, 0, 1, -1, -2, boundary values) or Fq2 (squares, square * fixed non-square, zero imaginary part with the real part a residue / non-residue and below / above q/2, purely imaginary, boundary components), or a compressed decode of an x-coordinate (uniform x for G1, x of k*P2 for G2, both prefixes); oracle = Euler criterion (Fq), Euler-in-Fq2 and norm criterion (Fq2), soundness by squaring in the library and in the reference; non-trivial = x not in {0,1} and not a uniform square; distinct by input",
        required: crate::runner::req(&[
            "fq:square", "fq:nonresidue", "fq:const", "fq2:square", "fq2:nonsquare", "fq2:real-residue-low", "fq2:real-residue-high", "fq2:real-nonresidue-low",
            "fq2:real-nonresidue-high", "fq2:imag-only", "fq2:square-derived-root", "g1-compressed:residue", "g1-compressed:nonresidue", "g2-compressed",
        ]),
        enumerate: None,
        enumerate_note: "",
        also_dbg: false,
        assumptions: super::TRUSTED,
        max_shrink_iters: 400,
    }
}

fn nonsquare2() -> R2 {
    use std::sync::OnceLock;
    static N: OnceLock<R2> = OnceLock::new();
    *N.get_or_init(|| {
        let mut k = 1u64;
        loop {
            let c = R2::new(rf::F::from(1u64), rf::F::from(k));
            if !c.is_square() {
                return c;
            }
            k += 1;
        }
    })
}

fn check_fq(v: &BigUint, info: &mut Info) -> Result<(), Failure> {
    let q = zp::q();
    let x = fq_of_big(v);
    let is_sq = v.is_zero() || zp::is_qr(v, q);
    match x.sqrt() {
        Some(sv) => {
            let sb = big_of_fq(&sv);
            ensure!(is_sq, "fq-sqrt|some-for-nonresidue", "Fq sqrt({:x}) = Some({:x}) but the input is a non-residue", v, sb);
            ensure!(zp::mul_mod(&sb, &sb, q) == *v, "fq-sqrt|unsound", "Fq sqrt({:x}) = {:x}, whose square is {:x}", v, sb, zp::mul_mod(&sb, &sb, q));
            ensure!(big_of_fq(&(sv * sv)) == *v, "fq-sqrt|unsound-lib", "Fq sqrt({:x}): s*s != x in the library", v);
            if v.is_zero() {
                ensure!(sb.is_zero(), "fq-sqrt|zero", "Fq sqrt(0) = {:x}", sb);
            }
        }
        None => {
            ensure!(!is_sq, "fq-sqrt|none-for-residue", "Fq sqrt({:x}) = None but the input is a square (Euler criterion)", v);
        }
    }
    info.class(if is_sq { "fq:is-square" } else { "fq:is-nonresidue" });
    Ok(())
}

fn check_fq2(x: &(BigUint, BigUint), info: &mut Info) -> Result<(), Failure> {
    let rx = R2::new(rf::f_from_big(&x.0), rf::f_from_big(&x.1));
    let is_sq = rx.is_square();
    if rx.is_square_norm() != is_sq {
        fail!("oracle|disagree", "Fq2 squareness criteria disagree on ({:x},{:x})", x.0, x.1);
    }
    let lx = fq2_of_bigs(&x.0, &x.1);
    match lx.sqrt() {
        Some(sv) => {
            let sb = bigs_of_fq2(&sv);
            ensure!(is_sq, "fq2-sqrt|some-for-nonsquare", "Fq2 sqrt(({:x},{:x})) = Some but the input is not a square", x.0, x.1);
            ensure!(m_mul(&sb, &sb) == *x, "fq2-sqrt|unsound", "Fq2 sqrt(({:x},{:x})) = ({:x},{:x}) whose square differs", x.0, x.1, sb.0, sb.1);
            ensure!(bigs_of_fq2(&(sv * sv)) == *x, "fq2-sqrt|unsound-lib", "Fq2 sqrt: s*s != x in the library");
            if x.0.is_zero() && x.1.is_zero() {
                ensure!(sb.0.is_zero() && sb.1.is_zero(), "fq2-sqrt|zero", "Fq2 sqrt(0) != 0");
            }
        }
        None => {
            let cls = if x.1.is_zero() { "real-input" } else { "general-input" };
            ensure!(!is_sq, &format!("fq2-sqrt|none-for-square|{}", cls), "Fq2 sqrt(({:x} + {:x}*u)) = None but the input is a square (reference root exists: {:?})", x.0, x.1, rx.sqrt().map(|r| show_r2(&r)));
        }
    }
    info.class(if is_sq { "fq2:is-square" } else { "fq2:is-nonsquare" });
    Ok(())
}

pub fn check(g: &[u8], ctx: &Ctx) -> Result<Info, Failure> {
    let mut s = Src::new(g);
    let mut info = Info::default();
    let mut key = Key::new();
    let q = zp::q();
    let half: BigUint = q >> 1u32; // (q-1)/2
    match s.weighted(&[5, 9, 2, 1]) {
        0 => {
            // ---- Fq
            let (v, cls): (BigUint, &str) = match s.weighted(&[4, 4, 2, 3]) {
                0 => {
                    let a = felt(&mut s, Md::Q).v;
                    (zp::mul_mod(&a, &a, q), "fq:square")
                }
                1 => {
                    let a = felt(&mut s, Md::Q).v;
                    let a = if a.is_zero() { BigUint::one() } else { a };
                    (zp::mul_mod(&zp::mul_mod(&a, &a, q), &BigUint::from(2u32), q), "fq:nonresidue")
                }
                2 => {
                    let t = [BigUint::zero(), BigUint::one(), q - 1u32, q - 2u32, BigUint::from(2u32), BigUint::from(4u32), q - 4u32, half.clone(), &half + 1u32];
                    (t[s.choose(9)].clone(), "fq:const")
                }
                _ => (felt(&mut s, Md::Q).v, "fq:felt"),
            };
            info.class(cls);
            info.nontrivial = v > BigUint::one() && cls != "fq:felt";
            key.s("fq").big(&v);
            if ctx.want_desc {
                info.desc = crate::runner::note(json!({"field": "Fq", "x": zp::hexs(&v), "class": cls}));
            }
            check_fq(&v, &mut info)?;
        }
        1 => {
            // ---- Fq2
            let (x, cls): ((BigUint, BigUint), String) = match s.weighted(&[4, 3, 8, 2, 3, 4]) {
                5 => {
                    // squares whose root (y + z u) is chosen so that an INTERMEDIATE of the usual sqrt algorithm is a boundary
                    // value: with a = y^2 - 2z^2 and w = +-(y^2 + 2z^2) the sums a +- w are 2y^2 and -4z^2
                    let sv = match s.choose(6) {
                        0 => BigUint::one(),
                        1 => q - 1u32,
                        2 => BigUint::from(2u32),
                        3 => BigUint::zero(),
                        4 => BigUint::from(s.choose(17) as u32),
                        _ => felt(&mut s, Md::Q).v,
                    };
                    let other = felt(&mut s, Md::Q).v;
                    let other = if other.is_zero() { BigUint::one() } else { other };
                    let inv2 = zp::inv_mod(&BigUint::from(2u32), q).unwrap();
                    let inv4 = zp::mul_mod(&inv2, &inv2, q);
                    let root = if s.bool() {
                        // 2 y^2 = sv
                        match zp::sqrt_mod_5mod8(&zp::mul_mod(&sv, &inv2, q), q) {
                            Some(y) => (if s.bool() { y } else { zp::neg_mod(&y, q) }, other),
                            None => (other.clone(), other),
                        }
                    } else {
                        // -4 z^2 = sv
                        match zp::sqrt_mod_5mod8(&zp::mul_mod(&zp::neg_mod(&sv, q), &inv4, q), q) {
                            Some(z) => (other, if s.bool() { z } else { zp::neg_mod(&z, q) }),
                            None => (other.clone(), other),
                        }
                    };
                    (m_mul(&root, &root), "fq2:square-derived-root".into())
                }
                0 => {
                    let a = fq2_operand(&mut s, &mut info, "root");
                    (m_mul(&a, &a), "fq2:square".into())
                }
                1 => {
                    let a = fq2_operand(&mut s, &mut info, "root");
                    let a = if a.0.is_zero() && a.1.is_zero() { (BigUint::one(), BigUint::zero()) } else { a };
                    let n = nonsquare2();
                    (m_mul(&m_mul(&a, &a), &(rf::f_to_big(&n.a), rf::f_to_big(&n.b))), "fq2:nonsquare".into())
                }
                2 => {
                    // zero imaginary part: residue / non-residue of Fq, on both sides of q/2
                    let a = felt(&mut s, Md::Q).v;
                    let a = if a.is_zero() { BigUint::one() } else { a };
                    let sq = zp::mul_mod(&a, &a, q);
                    let want_res = s.bool();
                    let want_high = s.bool();
                    let mut v = if want_res { sq } else { zp::mul_mod(&sq, &BigUint::from(2u32), q) };
                    // -1 is a square mod q (q = 1 mod 4), so v and q - v have the same character: pick the requested side
                    if (v > half) != want_high {
                        v = q - &v;
                    }
                    let c = format!("fq2:real-{}-{}", if want_res { "residue" } else { "nonresidue" }, if want_high { "high" } else { "low" });
                    ((v, BigUint::zero()), c)
                }
                3 => {
                    let b = felt(&mut s, Md::Q).v;
                    ((BigUint::zero(), b), "fq2:imag-only".into())
                }
                _ => (fq2_operand(&mut s, &mut info, "x"), "fq2:operand".into()),
            };
            info.class(cls.clone());
            info.nontrivial = !(x.1.is_zero() && x.0 <= BigUint::one()) && cls != "fq2:operand";
            key.s("fq2").big(&x.0).big(&x.1);
            if ctx.want_desc {
                info.desc = crate::runner::note(json!({"field": "Fq2", "real": zp::hexs(&x.0), "imaginary": zp::hexs(&x.1), "class": cls}));
            }
            check_fq2(&x, &mut info)?;
        }
        2 => {
            // ---- consequence for G1: compressed decoding succeeds exactly for x with x^3+5 a residue
            let x = felt(&mut s, Md::Q).v;
            let rhs = zp::add_mod(&zp::mul_mod(&zp::mul_mod(&x, &x, q), &x, q), &BigUint::from(5u32), q);
            let carries = rhs.is_zero() || zp::is_qr(&rhs, q);
            info.class(if carries { "g1-compressed:residue" } else { "g1-compressed:nonresidue" });
            info.nontrivial = true;
            key.s("g1c").big(&x);
            if ctx.want_desc {
                info.desc = crate::runner::note(json!({"decode": "G1::from_compressed", "x": zp::hexs(&x), "carries_point": carries}));
            }
            for prefix in [2u8, 3u8] {
                let b = with_prefix(prefix, &zp::be32(&x));
                match G1::from_compressed(&b) {
                    Ok(p) => {
                        ensure!(carries, "g1-compressed|accepted-no-point", "from_compressed({}) = Ok but x^3+5 is a non-residue", hex(&b));
                        let (px, py) = (big_of_fq(&p.x()), big_of_fq(&p.y()));
                        ensure!(big_of_fq(&p.z()) == BigUint::one() && px == x, "g1-compressed|x", "decoded x differs");
                        ensure!(zp::mul_mod(&py, &py, q) == rhs, "g1-compressed|off-curve", "decoded y^2 != x^3+5");
                        ensure!(rhs.is_zero() || py.bit(0) == (prefix == 3), "g1-compressed|parity", "prefix {:02x} decoded to y = {:x}", prefix, py);
                    }
                    Err(_) => {
                        ensure!(!carries, "g1-compressed|rejected-point", "from_compressed({}) = Err although x carries a curve point", hex(&b));
                    }
                }
            }
        }
        _ => {
            // ---- consequence for G2: the x-coordinate of every G2 point decodes with both prefixes
            let k = scalar_nonzero(&mut s).k;
            let a = rf::g2_mul(&k).unwrap();
            info.class("g2-compressed");
            info.nontrivial = true;
            key.s("g2c").big(&k);
            if ctx.want_desc {
                info.desc = crate::runner::note(json!({"decode": "G2::from_compressed", "point": format!("{:x}*P2", k)}));
            }
            for prefix in [2u8, 3u8] {
                let b = with_prefix(prefix, &enc_r2(&a.0));
                match G2::from_compressed(&b) {
                    Ok(p) => {
                        let den = g2_denotes(&p);
                        let want = if f_is_odd(&a.1.a) == (prefix == 3) { Some(a.clone()) } else { rf::aff_neg(&Some(a.clone())) };
                        ensure!(den == want, "g2-compressed|point", "from_compressed({}) decoded to a different point", hex(&b));
                    }
                    Err(e) => fail!("g2-compressed|rejected-point", "from_compressed({}) = Err({:?}) for x of {:x}*P2", hex(&b), e, k),
                }
            }
            let _ = Fq2::zero();
        }
    }
    info.key = key.done();
    Ok(info)
}
