//! C15 — point equality, normalisation and affine conversion respect the group element.
use crate::gen::{related, RELATIONS};
use crate::grp::{desc_pt, point, Grp, Pt, GA, GB};
use crate::rf::{self, Fld};
use crate::runner::{Ctx, Failure, Info, Key, PropDef};
use crate::src::Src;
use crate::{ensure, fail};
use num_bigint::BigUint;
use num_traits::Zero;
use serde_json::json;
use sm9_core::Group;

pub fn def() -> PropDef {
    let mut required = vec![];
    for g in ["G1", "G2"] {
        for rel in RELATIONS.iter() {
            for a in 0..3 {
                for b in 0..3 {
                    required.push(format!("cell:{}|{}|{}|{}", g, rel, a, b));
                }
            }
        }
        for rep in ["affine", "libjac", "rescaled", "zero-canon", "zero-leftover", "zero-arb"] {
            required.push(format!("rep:{}|{}", g, rep));
        }
        required.push(format!("lambda:{}|-1", g));
    }
    required.push("chord:pair".into());
    PropDef {
        id: "C15",
        check,
        genome_len: 700,
        quick_cases: 40_000,
        thorough_cases: 2_000_000,
        rule: "case = (group, relation between dlogs k1,k2, representation of each incl. lambda=-1 and the three identity kinds, two further representatives of k1 for transitivity); oracle: == iff k1 = k2 mod r (reflexive, symmetric, transitive), P != -P, identity != non-identity, every z=0 value is_zero and equals every other; normalize keeps the denoted point (reference X/Z^2, Y/Z^3), gives z=1 for non-identity, keeps identity; Affine::from_jacobian is None iff identity, else the reference coordinates, and G::from(affine) == P; non-trivial = the two representations differ or a rescaled/identity variant is used; distinct by (group, dlogs, constructions)",
        required,
        enumerate: None,
        enumerate_note: "",
        also_dbg: false,
        assumptions: super::TRUSTED,
        max_shrink_iters: 300,
    }
}

fn unary<G: Grp>(p: &Pt<G>) -> Result<(), Failure> {
    let ident = p.k.is_zero();
    ensure!(p.val.is_zero() == ident, "is_zero|value", "{}: is_zero = {} for k={:x} {} = {}", G::NAME, p.val.is_zero(), p.k, p.how, G::show(&p.val));
    ensure!(p.val == p.val, "eq|not-reflexive", "{}: P != P for {} = {}", G::NAME, p.how, G::show(&p.val));
    // normalize
    let mut n = p.val;
    n.normalize();
    let (_, _, z) = G::coords(&n);
    if ident {
        ensure!(n.is_zero() && z.is_zero(), "normalize|identity-lost", "{}: normalize() of identity {} gave {}", G::NAME, p.how, G::show(&n));
    } else {
        ensure!(z == G::B::one(), "normalize|z-not-one", "{}: after normalize() z = {} for {} = {}", G::NAME, G::show_b(&z), p.how, G::show(&p.val));
        ensure!(G::denotes(&n) == p.aff, "normalize|changed-point", "{}: normalize() changed the denoted point of {} = {}: now {}", G::NAME, p.how, G::show(&p.val), G::show(&n));
        let (x, y, _) = G::coords(&n);
        ensure!(Some((x, y)) == p.aff, "normalize|coords", "{}: normalized coordinates are not the affine coordinates", G::NAME);
    }
    ensure!(n == p.val, "normalize|not-equal", "{}: normalize()d value != original under == for {}", G::NAME, p.how);
    // idempotent
    let mut n2 = n;
    n2.normalize();
    ensure!(G::coords(&n2) == G::coords(&n), "normalize|not-idempotent", "{}: normalize twice differs", G::NAME);
    // affine conversion
    match (G::affine_from_jacobian(p.val), &p.aff) {
        (None, None) => {}
        (Some(a), Some(w)) => {
            ensure!(a == *w, "to_affine|coords", "{}: from_jacobian({}) = {} want {}", G::NAME, G::show(&p.val), G::show_aff(&Some(a)), G::show_aff(&p.aff));
            let back = G::affine_roundtrip(p.val).unwrap();
            ensure!(back == p.val, "to_affine|roundtrip-eq", "{}: G::from(from_jacobian(P)) != P for {}", G::NAME, p.how);
            ensure!(G::denotes(&back) == p.aff && G::coords(&back).2 == G::B::one(), "to_affine|roundtrip-point", "{}: affine round trip changed the point", G::NAME);
        }
        (None, Some(_)) => fail!("to_affine|none-for-point", "{}: from_jacobian = None for non-identity {} = {}", G::NAME, p.how, G::show(&p.val)),
        (Some(a), None) => fail!("to_affine|some-for-identity", "{}: from_jacobian of identity {} = {}", G::NAME, p.how, G::show_aff(&Some(a))),
    }
    Ok(())
}

fn run<G: Grp>(s: &mut Src, info: &mut Info, key: &mut Key, ctx: &Ctx) -> Result<(), Failure> {
    let r = crate::zp::r();
    let rel = s.choose(RELATIONS.len());
    let (ca, cb) = (s.choose(3), s.choose(3));
    let (k1, k2, reln) = related(s, rel);
    let a: Pt<G> = point(s, &k1, ca)?;
    let b: Pt<G> = point(s, &k2, cb)?;
    // two more representatives of k1
    let (c2, c3) = (s.choose(3), s.choose(3));
    let a2: Pt<G> = point(s, &k1, c2)?;
    let a3: Pt<G> = point(s, &k1, c3)?;
    info.class(format!("cell:{}|{}|{}|{}", G::NAME, reln, ca, cb));
    for p in [&a, &b, &a2, &a3] {
        info.class(format!("rep:{}|{}", G::NAME, p.rep.name()));
        if p.how.contains("rescaled by -1") {
            info.class(format!("lambda:{}|-1", G::NAME));
        }
    }
    info.nontrivial = a.rep != b.rep || ca == 2 || cb == 2 || a.rep.is_identity() || b.rep.is_identity();
    key.s(G::NAME).big(&a.k).big(&b.k).s(&a.how).s(&b.how).s(&a2.how).s(&a3.how);
    if ctx.want_desc {
        info.desc = crate::runner::note(json!({"group": G::NAME, "relation": reln, "A": desc_pt(&a), "B": desc_pt(&b), "A2": desc_pt(&a2), "A3": desc_pt(&a3)}));
    }
    let same = a.k == b.k;
    let e1 = a.val == b.val;
    let e2 = b.val == a.val;
    ensure!(e1 == same, "eq|value", "{}: (A == B) = {} but k1 {} k2 (A: k={:x} {} = {}; B: k={:x} {} = {})", G::NAME, e1, if same { "==" } else { "!=" }, a.k, a.how, G::show(&a.val), b.k, b.how, G::show(&b.val));
    if let Some(e3) = G::extra_eq(&a.val, &b.val) {
        ensure!(e3 == same, "eq|inner-type", "{}: (A.0 == B.0) = {} but k1 {} k2", G::NAME, e3, if same { "==" } else { "!=" });
    }
    if let Some(z) = G::extra_is_zero(&a.val) {
        ensure!(z == a.k.is_zero(), "is_zero|inner-type", "{}: A.0.is_zero() = {} for k = {:x}", G::NAME, z, a.k);
    }
    if let Some(af) = G::extra_to_affine(&a.val) {
        ensure!(af == a.aff, "to_affine|inner-type", "{}: A.0.to_affine() differs from the reference affine coordinates for {}", G::NAME, a.how);
    }
    ensure!(e2 == same, "eq|not-symmetric", "{}: (B == A) = {} but (A == B) = {}", G::NAME, e2, e1);
    #[allow(clippy::nonminimal_bool)]
    {
        ensure!(!(a.val != b.val) == same, "eq|ne-inconsistent", "{}: != disagrees with ==", G::NAME);
    }
    // transitivity over three representatives of the same element, and substitution into a comparison with B
    ensure!(a.val == a2.val && a2.val == a3.val && a.val == a3.val, "eq|representatives", "{}: representatives of k={:x} compare unequal: [{}] [{}] [{}]", G::NAME, a.k, a.how, a2.how, a3.how);
    ensure!((a2.val == b.val) == same && (a3.val == b.val) == same, "eq|not-transitive", "{}: A == A2 but (A2 == B) differs from (A == B)", G::NAME);
    // P != -P, identity vs non-identity
    if !a.k.is_zero() {
        let na = -a.val;
        ensure!(na != a.val && a.val != na, "eq|p-equals-minus-p", "{}: P == -P for k={:x} {}", G::NAME, a.k, a.how);
        ensure!(G::denotes(&na) == rf::aff_neg(&a.aff), "neg|wrong-point", "{}: -P denotes the wrong point", G::NAME);
        let nk = (r - &a.k) % r;
        let cn = s.choose(3);
        let neg_other: Pt<G> = point(s, &nk, cn)?;
        ensure!(na == neg_other.val, "eq|minus-p-representative", "{}: -P != another representative of -P ({})", G::NAME, neg_other.how);
        ensure!(a.val != neg_other.val, "eq|p-equals-minus-p", "{}: P == representative of -P ({})", G::NAME, neg_other.how);
    }
    // every z = 0 value is the identity and equals every other; none equals a non-identity
    let mut zs: Vec<Pt<G>> = vec![];
    for zc in 0..3 {
        zs.push(point(s, &BigUint::zero(), zc)?);
    }
    for i in 0..3 {
        ensure!(zs[i].val.is_zero(), "is_zero|identity-variant", "{}: identity variant {} is not is_zero", G::NAME, zs[i].how);
        for j in 0..3 {
            ensure!(zs[i].val == zs[j].val, "eq|identities-differ", "{}: identity [{}] != identity [{}]", G::NAME, zs[i].how, zs[j].how);
        }
        ensure!((zs[i].val == a.val) == a.k.is_zero() && (a.val == zs[i].val) == a.k.is_zero(), "eq|identity-vs-point", "{}: identity [{}] compared with k={:x} [{}] gives the wrong answer", G::NAME, zs[i].how, a.k, a.how);
        unary::<G>(&zs[i])?;
    }
    unary::<G>(&a)?;
    unary::<G>(&b)?;
    let _ = G::B::zero();
    Ok(())
}

/// Two distinct G1 points joined by a chord of prescribed slope m (G1 is the whole curve, so the second intersection of a line
/// with the curve is a group element): slopes +-sqrt(-1), +-1, 2, omega - directions on which quadratic forms such as
/// dx^2 + dy^2 vanish. Equality (Jacobian `==` in several representations, and `==` of the affine types) must say "different".
fn chord_case(s: &mut Src, info: &mut Info, key: &mut Key, ctx: &Ctx) -> Result<(), Failure> {
    use crate::conv::*;
    use crate::grp::{fq_roots_of_unity, g1_point_from_x};
    use crate::zp;
    use sm9_core::{AffineG1, G1};
    let q = zp::q();
    let p: Pt<GA> = g1_point_from_x(s, 0)?;
    let (x1, y1) = { let a = p.aff.unwrap(); (rf::f_to_big(&a.0), rf::f_to_big(&a.1)) };
    let m = match s.choose(6) {
        0 => rf::f_to_big(&fq_roots_of_unity(4).0),
        1 => zp::neg_mod(&rf::f_to_big(&fq_roots_of_unity(4).0), q),
        2 => BigUint::from(1u32),
        3 => q - 1u32,
        4 => BigUint::from(2u32),
        _ => rf::f_to_big(&fq_roots_of_unity(2).0),
    };
    // second intersection: x^2 + (x1 - m^2) x + (x1^2 + m^2 x1 - 2 m y1) = 0
    let m2 = zp::mul_mod(&m, &m, q);
    let bq = zp::sub_mod(&x1, &m2, q);
    let cq = zp::sub_mod(&zp::add_mod(&zp::mul_mod(&x1, &x1, q), &zp::mul_mod(&m2, &x1, q), q), &zp::mul_mod(&BigUint::from(2u32), &zp::mul_mod(&m, &y1, q), q), q);
    let disc = zp::sub_mod(&zp::mul_mod(&bq, &bq, q), &zp::mul_mod(&BigUint::from(4u32), &cq, q), q);
    let rt = match zp::sqrt_mod_5mod8(&disc, q) {
        Some(r) => r,
        None => {
            info.class("chord:no-second-point");
            return Ok(());
        }
    };
    let inv2 = zp::inv_mod(&BigUint::from(2u32), q).unwrap();
    let x2 = zp::mul_mod(&zp::sub_mod(&rt, &bq, q), &inv2, q);
    if x2 == x1 {
        info.class("chord:tangent");
        return Ok(());
    }
    let y2 = zp::add_mod(&y1, &zp::mul_mod(&m, &zp::sub_mod(&x2, &x1, q), q), q);
    // guard: (x2, y2) is on the curve
    if zp::mul_mod(&y2, &y2, q) != zp::add_mod(&zp::mul_mod(&zp::mul_mod(&x2, &x2, q), &x2, q), &BigUint::from(5u32), q) {
        fail!("oracle|chord", "second intersection is not on the curve");
    }
    info.class("chord:pair");
    info.nontrivial = true;
    key.s("chord").big(&x1).big(&y1).big(&m);
    if ctx.want_desc {
        info.desc = crate::runner::note(json!({"kind": "two distinct G1 points on a chord of slope m", "m": zp::hexs(&m), "P": format!("({:x},{:x})", x1, y1), "Q": format!("({:x},{:x})", x2, y2)}));
    }
    let qa = (rf::f_from_big(&x2), rf::f_from_big(&y2));
    let lam = GA::lambda(s).0;
    let reps_p = [p.val, GA::rescaled(&p.aff.unwrap(), &lam)];
    let reps_q = [GA::affine(&qa), GA::rescaled(&qa, &lam), GA::rescaled(&qa, &GA::lambda(s).0)];
    for a in reps_p.iter() {
        for b in reps_q.iter() {
            ensure!(a != b && b != a, "eq|distinct-points-equal", "G1: two different points (chord of slope {:x}) compare equal: {} vs {}", m, show_g1(a), show_g1(b));
            let (fa, fb) = (AffineG1::from_jacobian(*a), AffineG1::from_jacobian(*b));
            ensure!(fa.is_some() && fb.is_some() && fa != fb, "eq|affine-distinct-points-equal", "AffineG1: the affine forms of two different points (chord of slope {:x}) compare equal", m);
            ensure!(fa == AffineG1::from_jacobian(G1::from(fa.unwrap())), "eq|affine-not-reflexive", "AffineG1: value != itself after a round trip");
        }
    }
    Ok(())
}

pub fn check(g: &[u8], ctx: &Ctx) -> Result<Info, Failure> {
    let mut s = Src::new(g);
    let mut info = Info::default();
    let mut key = Key::new();
    if g.first().map(|b| b % 16 == 15).unwrap_or(false) {
        s.u8();
        chord_case(&mut s, &mut info, &mut key, ctx)?;
        info.key = key.done();
        return Ok(info);
    }
    if s.bool() {
        run::<GA>(&mut s, &mut info, &mut key, ctx)?;
    } else {
        run::<GB>(&mut s, &mut info, &mut key, ctx)?;
    }
    info.key = key.done();
    Ok(info)
}
