//! C04 — G1 and G2 addition, subtraction and negation implement the curve group law.
//! Oracle: textbook affine chord-and-tangent law on reference coordinates.
use crate::gen::{related, scalar, RELATIONS};
use crate::grp::{desc_pt, point, Grp, Pt, GA, GB};
use crate::rf::{self, Aff, Fld};
use crate::runner::{Ctx, Failure, Info, Key, PropDef};
use crate::src::Src;
use crate::{ensure, fail};
use num_traits::Zero;
use serde_json::json;
use sm9_core::Group;

pub fn def() -> PropDef {
    PropDef {
        id: "C04",
        check,
        genome_len: 700,
        quick_cases: 32_000,
        thorough_cases: 1_600_000,
        rule: "case = (group, relation of B to A in {independent, equal, opposite, identity-right, identity-left, doubled, neighbour}, representation of A, of B, third operand C); representations: affine z=1 / library Jacobian (4 constructions) / rescaled by lambda in {-1, 2, arbitrary}; identities as (0,1,0) / leftover of P-P / arbitrary (x,y,0); every operand is validated against the reference first; A+B, A-B, B-A, -A are mapped to affine by the reference (X/Z^2, Y/Z^3) and compared with the textbook law; plus commutativity, associativity, neutrality on library values; non-trivial = not (both z=1 and independent); distinct by (group, dlogs, representations)",
        required: grid_cells(),
        enumerate: None,
        enumerate_note: "",
        also_dbg: false,
        assumptions: super::TRUSTED,
        max_shrink_iters: 300,
    }
}

/// the full grid of the quantifier: every (group, relation, repA-category, repB-category) cell must be hit
pub fn grid_cells() -> Vec<String> {
    let mut v = vec![];
    for g in ["G1", "G2"] {
        for rel in RELATIONS.iter() {
            for a in 0..3 {
                for b in 0..3 {
                    v.push(format!("cell:{}|{}|{}|{}", g, rel, a, b));
                }
            }
        }
    }
    v
}

fn cmp<G: Grp>(got: &G::L, want: &Aff<G::B>, sig: &str, what: &str, a: &Pt<G>, b: &Pt<G>) -> Result<(), Failure> {
    let (_, _, z) = G::coords(got);
    let den = G::denotes(got);
    if want.is_none() {
        ensure!(z.is_zero() && got.is_zero(), &format!("{}|not-identity", sig), "{} {}: expected the identity, got {} (A: k={:x} {}; B: k={:x} {})", G::NAME, what, G::show(got), a.k, a.how, b.k, b.how);
        return Ok(());
    }
    ensure!(!z.is_zero() && !got.is_zero(), &format!("{}|spurious-identity", sig), "{} {}: got an identity {} but expected {} (A: k={:x} {}; B: k={:x} {})", G::NAME, what, G::show(got), G::show_aff(want), a.k, a.how, b.k, b.how);
    ensure!(den == *want, &format!("{}|wrong-point", sig), "{} {}: got {} which denotes {}, textbook law gives {} (A: k={:x} {} = {}; B: k={:x} {} = {})", G::NAME, what, G::show(got), G::show_aff(&den), G::show_aff(want), a.k, a.how, G::show(&a.val), b.k, b.how, G::show(&b.val));
    ensure!(rf::on_curve(&den, &G::b()), &format!("{}|off-curve", sig), "{} {}: result not on the curve", G::NAME, what);
    Ok(())
}

fn run<G: Grp>(s: &mut Src, info: &mut Info, key: &mut Key, ctx: &Ctx) -> Result<(), Failure> {
    let rel = s.choose(RELATIONS.len());
    let ca = s.choose(3);
    let cb = s.choose(3);
    let cc = s.choose(3);
    let (ka, kb, reln) = related(s, rel);
    let kc = scalar(s).k;
    let a: Pt<G> = point(s, &ka, ca)?;
    let mut b: Pt<G> = point(s, &kb, cb)?;
    let c: Pt<G> = point(s, &kc, cc)?;
    // co-Z pairs: two different points sharing one z (what X+Y and X-Y produce, or a common rescaling)
    if s.choose(4) == 0 && !a.k.is_zero() && !b.k.is_zero() {
        let za = G::coords(&a.val).2;
        if za != G::B::one() {
            // z_B = zeta * z_A with zeta a root of unity of order 1, 2, 3, 4 or 6 (equal z, or equal z^2 / z^3 / z^4)
            let (zeta, zn) = G::small_root_of_unity(s.choose(6));
            let zb = za.mul(&zeta);
            info.class(format!("coz:zeta={}", zn));
            b = Pt { k: b.k.clone(), rep: crate::gen::Rep::Rescaled, how: format!("rescaled to {} * (z of A) = {}", zn, G::show_b(&zb)), val: G::rescaled(&b.aff.unwrap(), &zb), aff: b.aff };
            if G::denotes(&b.val) != b.aff {
                fail!("harness|co-z", "co-Z rescaling broke the operand");
            }
            info.class("coz:shared-z");
        }
    }
    info.class(format!("cell:{}|{}|{}|{}", G::NAME, reln, ca, cb));
    info.class(format!("rep:{}", a.rep.name()));
    info.class(format!("rep:{}", b.rep.name()));
    info.class(format!("rel:{}", reln));
    info.nontrivial = !(ca == 0 && cb == 0 && rel == 0);
    key.s(G::NAME).big(&a.k).big(&b.k).big(&c.k).s(&a.how).s(&b.how).s(&c.how);
    if ctx.want_desc {
        info.desc = crate::runner::note(json!({"group": G::NAME, "relation": reln, "A": desc_pt(&a), "B": desc_pt(&b), "C": desc_pt(&c)}));
    }
    // the endomorphism relations must really give equal / opposite y with different x (guards the generator)
    if rel == 7 || rel == 8 {
        let (pa, pb) = (a.aff.unwrap(), b.aff.unwrap());
        let y_ok = if rel == 7 { pa.1 == pb.1 } else { pa.1 == pb.1.neg() };
        if !y_ok || pa.0 == pb.0 {
            fail!("oracle|endomorphism", "lambda*A does not have the expected coordinates");
        }
    }
    // reference results
    let sum = rf::aff_add(&a.aff, &b.aff);
    let dif = rf::aff_sub(&a.aff, &b.aff);
    let fid = rf::aff_sub(&b.aff, &a.aff);
    let nega = rf::aff_neg(&a.aff);
    // internal consistency of the oracle with the discrete logs
    let r = crate::zp::r();
    if sum != G::gen_mul(&((&a.k + &b.k) % r)) {
        fail!("oracle|disagree", "reference chord-and-tangent disagrees with the reference scalar multiplication");
    }
    // library
    let lsum = a.val + b.val;
    cmp::<G>(&lsum, &sum, "add", "A+B", &a, &b)?;
    let lsum2 = b.val + a.val;
    cmp::<G>(&lsum2, &sum, "add", "B+A", &b, &a)?;
    let ldif = a.val - b.val;
    cmp::<G>(&ldif, &dif, "sub", "A-B", &a, &b)?;
    let lfid = b.val - a.val;
    cmp::<G>(&lfid, &fid, "sub", "B-A", &b, &a)?;
    let lneg = -a.val;
    cmp::<G>(&lneg, &nega, "neg", "-A", &a, &a)?;
    // every other publicly reachable operator form (inner-type forms of G1)
    for (name, v) in G::extra_forms(a.val, b.val) {
        let want = if name.starts_with("add:") {
            &sum
        } else if name.starts_with("sub:") {
            &dif
        } else {
            &nega
        };
        cmp::<G>(&v, want, "inner-form", name, &a, &b)?;
    }
    for (name, v) in G::extra_forms(a.val, a.val) {
        let want = if name.starts_with("add:") { rf::aff_add(&a.aff, &a.aff) } else if name.starts_with("sub:") { None } else { nega.clone() };
        cmp::<G>(&v, &want, "inner-form", &format!("{} (B = A)", name), &a, &a)?;
    }
    // A + A through the adder (same representative on both sides) and A + (-A)
    cmp::<G>(&(a.val + a.val), &rf::aff_add(&a.aff, &a.aff), "add", "A+A", &a, &a)?;
    cmp::<G>(&(a.val + lneg), &None, "add", "A+(-A)", &a, &a)?;
    cmp::<G>(&(a.val - a.val), &None, "sub", "A-A", &a, &a)?;
    // laws on library values (== is C15's subject; every law is also checked through the reference above/below)
    ensure!(lsum == lsum2, "law|commutative", "{}: A+B != B+A under == (A: k={:x} {}; B: k={:x} {})", G::NAME, a.k, a.how, b.k, b.how);
    let l1 = (a.val + b.val) + c.val;
    let l2 = a.val + (b.val + c.val);
    let want3 = rf::aff_add(&sum, &c.aff);
    cmp::<G>(&l1, &want3, "assoc", "(A+B)+C", &a, &b)?;
    cmp::<G>(&l2, &want3, "assoc", "A+(B+C)", &a, &b)?;
    ensure!(l1 == l2, "law|associative", "{}: (A+B)+C != A+(B+C) under ==", G::NAME);
    // neutrality with each kind of identity, both sides
    for zc in 0..3 {
        let o: Pt<G> = point(s, &num_bigint::BigUint::from(0u32), zc)?;
        cmp::<G>(&(a.val + o.val), &a.aff, "neutral", &format!("A+O[{}]", o.rep.name()), &a, &o)?;
        cmp::<G>(&(o.val + a.val), &a.aff, "neutral", &format!("O[{}]+A", o.rep.name()), &o, &a)?;
        cmp::<G>(&(a.val - o.val), &a.aff, "neutral", &format!("A-O[{}]", o.rep.name()), &a, &o)?;
        cmp::<G>(&(o.val - a.val), &nega, "neutral", &format!("O[{}]-A", o.rep.name()), &o, &a)?;
        ensure!(a.val + o.val == a.val, "law|neutral", "{}: A+O != A under == for O = {}", G::NAME, o.how);
        cmp::<G>(&(-o.val), &None, "neg", "-O", &o, &o)?;
    }
    Ok(())
}

pub fn check(g: &[u8], ctx: &Ctx) -> Result<Info, Failure> {
    let mut s = Src::new(g);
    let mut info = Info::default();
    let mut key = Key::new();
    if s.bool() {
        run::<GA>(&mut s, &mut info, &mut key, ctx)?;
    } else {
        run::<GB>(&mut s, &mut info, &mut key, ctx)?;
    }
    info.key = key.done();
    Ok(info)
}
