#!/usr/bin/env python3
"""Regenerates /verif/MANIFEST.json from the table below (kept in one place so it stays valid)."""
import json, subprocess

HOOK_COMMITS = ["5aea39f"]

CHECKS = {
 "C01": dict(technique="property-based testing of the bilinearity / identity / order relations (metamorphic oracle) on all three entry points over the representation classes",
             text="Each relation of the statement - e(aP,bQ)=e(P,Q)^(ab), additivity in either argument, e(O,.)=e(.,O)=1 for all three identity forms on either or both sides, g^(r-1)g=1, e(P1,P2)!=1 and e(cP1,dP2)=1 iff cd=0 - is evaluated on library outputs for pairing, fast_pairing and G2Prepared::pairing with scalars from the boundary classes and points in all representations (validated against the reference first). Gt arithmetic used by the relations is tied to the reference in C11, the pairing value itself in C02. Exploration only.",
             ref="6/C01"),
 "C02": dict(technique="differential property-based testing against an independent textbook R-ate pairing (reference model), published vectors as fixed cases",
             text="For generated a, b in Z_r* and every non-identity representation of a*P1 and b*P2, the 384 bytes returned by each entry point are compared with a second implementation written from the standard: affine Miller loop over the plain binary expansion of 6t+2 in F_q[w]/(w^12+2) over ark-ff's generic Fp, Frobenius line corrections, plain (q^12-1)/r exponentiation, standard coefficient order. The oracle itself reproduces the published SM9 vectors at start-up. Exploration only.",
             ref="6/C02"),
 "C03": dict(technique="property-based testing: cross-entry-point differential + representation-independence metamorphic relation + generated call histories on one prepared value",
             text="Inputs over all 6x6 representation cells (identities in three forms) must give byte-identical values from the three entry points, equal to the value for the normalised presentation of the same elements and to one for identities; generated histories (up to 16 calls, up to 4 clones taken at random points, clone_from into existing slots from values prepared from Q / from a second point Q2 (identity half of the time) / from other slots, 1..8 inputs with repeats) on prepared G2 values must answer pairing(P_i, owner point) at every position. Exploration only.",
             ref="6/C03"),
 "C11": dict(technique="property-based testing: Gt operations vs. polynomial-basis reference arithmetic on the parsed encodings, group/exponent laws, discrete-log model for ==",
             text="g and h are generated expression trees (pairing values from any entry point, products, powers, inverses) with tracked discrete logs; g*h, inverse(g), g^a are recomputed from the parsed 384-byte encodings by schoolbook multiplication, Gaussian-elimination inverse and plain square-and-multiply in F_q[w]/(w^12+2) and compared byte for byte; the laws of the statement are checked on library values; == must agree with encoding equality and with discrete-log equality; every limb must be < q. Exploration only.",
             ref="6/C11"),
 "C04": dict(technique="property-based testing over the full (group x relation x representation x representation) grid against a textbook affine chord-and-tangent oracle",
             text="Operands are generated per grid cell (2 groups x 9 relations - incl. same/opposite y with different x via the order-3 endomorphism - x 3x3 representation categories, all cells required non-empty; identities in three forms; co-Z pairs; rescalings solved from target values of z^-2), validated against the reference, and A+B, B+A, A-B, B-A, -A, A+A, A+(-A), (A+B)+C, A+(B+C), A+-O are mapped to affine by the reference (X/Z^2, Y/Z^3) and compared with the textbook law computed on reference coordinates; commutativity/associativity/neutrality are also checked on library values. Exploration only.",
             ref="6/C04"),
 "C05": dict(technique="property-based testing: library scalar multiplication vs. independent affine double-and-add, plus metamorphic module laws",
             text="For scalars from the named boundary classes (plus small combinations a + b*lambda of the endomorphism eigenvalue, also as bit prefixes) and points in all six representations (identities included) of both groups, P*k and k*P are compared (through reference X/Z^2, Y/Z^3) with an independent left-to-right double-and-add over reference affine arithmetic started from P's own coordinates, cross-checked with (k*c mod r)*generator; (a+b)P=aP+bP, (ab)P=a(bP), 0P=O, 1P=P, (r-1)P=-P and generator order r are checked on library values and through the reference. Exploration only.",
             ref="6/C05"),
 "C08": dict(technique="property-based testing + exhaustive sub-space enumeration against an independent decoder oracle, run under two build profiles",
             text="An independent decoder written from the statement (length, prefix, every coordinate < q, curve equation or square test + parity, r*P = O for G2, over the reference field) decides Ok/Err for every generated byte string; Ok results must decode to the oracle's point and re-encode to the input; no panic allowed. Inputs: valid encodings and 15 kinds of structured corruption plus unstructured bytes over lengths 0..=140; all 256 prefixes, every length 0..=140 with three fills and every single-bit flip of valid encodings are enumerated exhaustively. The whole check runs in the release binary and again in a dbg-profile binary (debug assertions + overflow checks). Exploration only.",
             ref="6/C08"),
 "C09": dict(technique="property-based testing with constructed twist / small-order / near-miss points against a reference membership predicate",
             text="AffineG1::new, AffineG2::new and the three G2 decoders are fed subgroup points, random twist points built by reference sqrt, cofactor-cleared points, r*T, points of order 13 / 1621 / 13*1621, subgroup+small-order sums, near misses, wrong-b points, untwisted-curve points and uniform pairs; expected Ok iff the reference says on-curve and (G2) r*P = O by reference scalar multiplication. Exploration only.",
             ref="6/C09"),
 "C10": dict(technique="property-based testing: library encoders/decoders vs. byte strings built from reference coordinates (round-trip + format oracle)",
             text="For k != 0 in every non-identity representation of both groups, and for P and -P (both y parities), the raw, 0x04 and 0x02/0x03 encodings built from reference affine coordinates must equal the library's byte for byte; each decoder applied to them must return a point == P denoting the same reference point and re-encoding identically. Exploration only.",
             ref="6/C10"),
 "C15": dict(technique="property-based testing: == / normalize / affine conversion vs. a discrete-log model and reference coordinates over the representation grid",
             text="For pairs of discrete logs in 7 relations and all representation categories (incl. lambda = -1 and three identity forms; all grid cells required), == must hold iff the dlogs agree (reflexive, symmetric, transitive over three representatives), separate P from -P and from the identity, and identify all z = 0 values; normalize must keep the denoted point and give z = 1; Affine::from_jacobian must be None iff identity and otherwise give the reference coordinates, and round-trip to an equal point. Exploration only.",
             ref="6/C15"),
 "C16": dict(technique="model-based (stateful) property testing: generated and exhaustively enumerated operation programs vs. a discrete-log model in Z_r",
             text="Programs over a register file (3 G1, 3 G2, 3 Fr) built from add, sub, neg, scalar multiplication (both forms, register or constant scalar), normalize, affine round-trip, encode/decode in three formats, copy and Fr arithmetic are interpreted against the library and against a model that tracks only discrete logs; after every step the written register must be is_zero / == / encode exactly like a freshly computed one()*dlog and compare with every other register as the model predicts; at the end pairings of selected pairs through all three entry points must equal e(P1,P2)^(ab). All programs of depth <= 2 (quick) and all depth-3 programs per group (thorough) over 2 registers and scalars {0,1,2,r-1} are enumerated exhaustively; longer programs (<= 40 steps) are random. Exploration only.",
             ref="6/C16"),
 "C17": dict(technique="property-based testing of the hook-exposed tower against a polynomial-basis reference (different representation and algorithms)",
             text="Through the cfg-guarded hooks, every Fq4/Fq12 routine (mul, sparse mul_1/mul_015 on operands satisfying their stated sparsity, squared, inverse, all Frobenius codes/powers, scale, mul_by_nonresidue, unitary_inverse, pow(u128) incl. the chain exponents, pow(Fr), serialisation), the four-term interleaved sum of products (carry classes 0/1/2 computed in the model, all required), both final exponentiations on arbitrary non-zero elements (vs. plain x^((q^12-1)/r)) and both Miller loops (vs. the reference pairing and each other up to killed factors) are compared with F_q[w]/(w^12+2) on uniform, sparse, subfield, unitary and zero elements with limb-boundary coefficients. Exploration only.",
             ref="6/C17"),
 "C18": dict(technique="differential property-based testing across build configurations: release process vs. dbg-profile child process on generated API programs",
             text="A universal interpreter maps generated byte programs (operands from the generators of C01-C17: limb-boundary field elements, malformed decoder/converter inputs, all point representations, twist points, tower elements) to a transcript of raw outputs; the release build's transcript must equal, byte for byte, the transcript computed by a child process built from the same sources with debug assertions and integer-overflow checks on, and no assertion/overflow panic may appear on either side. Disagreements shrink like any other failure. Exploration only.",
             ref="6/C18", note="Trusted base: rustc/std, proptest; the harness's dbg cargo profile (inherits dev: debug-assertions and overflow-checks on, opt-level 2 for all packages) is taken to represent cargo's dev profile; operand generators of the other checks. The thorough tier adds libFuzzer campaigns, whose targets are built by cargo-fuzz with debug assertions and overflow checks on."),
 "C06": dict(technique="property-based testing (proptest byte genomes -> boundary/stored-limb operand classes) against a num-bigint integer oracle",
             text="Generated-input search: every operator form of Fq/Fr (+,-,*,neg in all by-value/by-ref/assign forms, inverse, pow, is_zero, is_even, and the internal squared/double/triple/div2 via hooks) is compared with integer arithmetic mod q/r (num-bigint) on operands constructed to sit on Montgomery limb boundaries, stored sums equal to p or 2^256, canonical boundaries, uniform values, and on derived pairs whose stored product / square / inverse or whose Montgomery quotient digits are boundary patterns (b = t/a, a = sqrt(t), a = 1/t); every result must also be in canonical form. Exploration, not proof: a pass means no counterexample among the generated cases of the stated classes.",
             ref="6/C06"),
 "C07": dict(technique="model-based property testing: generated histories over Fr/Fq/Fq2 registers vs. an integer model audited after every step",
             text="Generated histories (1..40 steps) compose every public producer of a field element (constructors, from_slice of every length, TryFrom, interpret, from_str, from_hash, Fr::random on arbitrary and constant RNG streams, set_bit for indices 0..=300, operators, pow, inverse, sqrt, Fq2::new/real/imaginary/from_slice). After each step the written registers are audited against a num-bigint model: encoding below the modulus, equal to the model, == iff encodings equal, is_zero iff 0, from_slice(to_slice(v)) == v. Exploration only.",
             ref="6/C07"),
 "C12": dict(technique="property-based testing against two independent oracles (num-bigint pairs and ark-ff reference Fq2) plus ring-law relations",
             text="Every operator form of Fq2, the accessors, parity, the 64-byte layout, from_slice, ring laws and (via hooks) the internal squared/inverse/scale/div2/double/triple/mul_by_nonresidue/unitary_inverse/sum_of_products are compared with Fq[u]/(u^2+2) computed on integer pairs; operands are built from limb-boundary classes and the carry class of each interleaved sum of products is computed in the model and counted. Exploration only.",
             ref="6/C12"),
 "C13": dict(technique="property-based testing + enumerated sub-spaces (every length 0..=70, every bit index 0..=300) against a num-bigint oracle",
             text="Each conversion (from_slice/TryFrom, interpret, from_hash, from_str, to_slice/to_big_endian, set_bit) is run on generated byte strings of every length 0..=70 aimed at the reduction boundaries, digit strings up to 160 characters with injected foreign characters, all buffer lengths and all bit indices, and compared with n mod p computed on integers. The length/index sub-spaces are enumerated completely; the contents are sampled. Exploration only.",
             ref="6/C13"),
 "C14": dict(technique="property-based testing: constructed squares / non-squares (Euler and norm criteria as oracle), soundness by squaring, compressed-decode consequence",
             text="sqrt is run on constructed squares, constructed non-squares, the four real-input classes (residue/non-residue x below/above q/2), purely imaginary inputs, constants and boundary values in Fq and Fq2; completeness is decided by the Euler criterion (Fq) and by Euler-in-Fq2 cross-checked with the norm criterion (Fq2); soundness by squaring in the library and in the reference; the consequence for compressed point decoding is checked on uniform x (G1) and on x-coordinates of subgroup points (G2). Exploration only.",
             ref="6/C14"),
}

NOT_YET = {}

def main():
    props=[json.loads(l) for l in open('/verif/properties.jsonl')]
    checks=[]; na=[]
    for p in props:
        i=p['id']
        if i in CHECKS:
            c=CHECKS[i]
            checks.append({
                "property_id": i,
                "quick_cmd": f"/verif/run.sh {i} quick",
                "thorough_cmd": f"/verif/run.sh {i} thorough",
                "evidence_file": f"/verif/evidence/{i}.json",
                "replay_cmd_template": "/verif/run.sh replay {path}",
                "engine": "sm9check",
                "level_claimed": {"category":"exploration","text":c['text'],"design_ref":"DESIGN.md section "+c['ref']},
                "level_note": c.get('note', "Trusted base: rustc/std, proptest, num-bigint, ark-ff Fp256 (reference field, cross-checked against num-bigint at start-up), the SM9 constants/vectors transcribed in the harness (validated against the published test vectors at start-up). Search is bounded by the case counts in the evidence file."),
                "technique": c['technique'],
            })
        else:
            na.append({"property_id": i, "reason": NOT_YET.get(i, "check not built yet in this round (planned: property-based test per DESIGN.md section 6); not claimed until it runs green on the unchanged tree")})
    m={
      "version":1,
      "setup_cmd":"/verif/run.sh build",
      "hooks":{"guard":"john_yu_sm9_core_verif","enable":"RUSTFLAGS='--cfg john_yu_sm9_core_verif' (set in /verif/harness/.cargo/config.toml and /verif/fuzz/.cargo/config.toml; sm9_core is a path dependency on /repo, so every check rebuilds it from the working tree)",
               "baseline_off_cmd":"cd /repo && cargo test --workspace --no-fail-fast --offline",
               "source_commits":HOOK_COMMITS,"add_only":True},
      "engines":[{"name":"sm9check","path":"/verif/harness","serves_properties":sorted(CHECKS.keys()),
                  "kind_free_text":"proptest-driven byte-genome generators + explicit oracles (num-bigint integers; textbook tower/curve/R-ate pairing over ark-ff Fp256); 16 fixed shards; shrinking; replay files; evidence writer"}],
      "checks":checks,
      "not_applicable":na,
      "notes":"See /verif/DESIGN.md. Exit codes: 0 held, 1 VIOLATION, 2 inconclusive (build failure / oracle self-test / watchdog). VERIF_SEED is honoured (default 1). Each check runs in the release build and (a quarter of the random cases) in a release build with -C target-cpu=native (VERIF_NATIVE=0 disables it); C08 and C18 also in a debug-assertions/overflow-checks build.",
    }
    json.dump(m,open('/verif/MANIFEST.json','w'),indent=1)
    print("checks:",len(checks),"not_applicable:",len(na))
main()
