#!/usr/bin/env python3
"""Regenerates /verif/MANIFEST.json from the table below (kept in one place so it stays valid)."""
import json, subprocess

HOOK_COMMITS = ["5aea39f"]

CHECKS = {
 "C06": dict(technique="property-based testing (proptest byte genomes -> boundary/stored-limb operand classes) against a num-bigint integer oracle",
             text="Generated-input search: every operator form of Fq/Fr (+,-,*,neg in all by-value/by-ref/assign forms, inverse, pow, is_zero, is_even, and the internal squared/double/triple/div2 via hooks) is compared with integer arithmetic mod q/r (num-bigint) on operands constructed to sit on Montgomery limb boundaries, stored sums equal to p or 2^256, canonical boundaries and uniform values. Exploration, not proof: a pass means no counterexample among the generated cases of the stated classes.",
             ref="6/C06"),
}

NOT_YET = {}

def main():
    props=[json.loads(l) for l in open('/verif/properties.jsonl')]
    checks=[]; na=[]
    for p in props:
        i=p['id']
        if i in CHECKS:
            c=CHECKS[i]
            checks.append({
                "property_id": i,
                "quick_cmd": f"/verif/run.sh {i} quick",
                "thorough_cmd": f"/verif/run.sh {i} thorough",
                "evidence_file": f"/verif/evidence/{i}.json",
                "replay_cmd_template": "/verif/run.sh replay {path}",
                "engine": "sm9check",
                "level_claimed": {"category":"exploration","text":c['text'],"design_ref":"DESIGN.md section "+c['ref']},
                "level_note": c.get('note', "Trusted base: rustc/std, proptest, num-bigint, ark-ff Fp256 (reference field, cross-checked against num-bigint at start-up), the SM9 constants/vectors transcribed in the harness (validated against the published test vectors at start-up). Search is bounded by the case counts in the evidence file."),
                "technique": c['technique'],
            })
        else:
            na.append({"property_id": i, "reason": NOT_YET.get(i, "check not built yet in this round (planned: property-based test per DESIGN.md section 6); not claimed until it runs green on the unchanged tree")})
    m={
      "version":1,
      "setup_cmd":"/verif/run.sh build",
      "hooks":{"guard":"john_yu_sm9_core_verif","enable":"RUSTFLAGS='--cfg john_yu_sm9_core_verif' (set in /verif/harness/.cargo/config.toml and /verif/fuzz/.cargo/config.toml; sm9_core is a path dependency on /repo, so every check rebuilds it from the working tree)",
               "baseline_off_cmd":"cd /repo && cargo test --workspace --no-fail-fast --offline",
               "source_commits":HOOK_COMMITS,"add_only":True},
      "engines":[{"name":"sm9check","path":"/verif/harness","serves_properties":sorted(CHECKS.keys()),
                  "kind_free_text":"proptest-driven byte-genome generators + explicit oracles (num-bigint integers; textbook tower/curve/R-ate pairing over ark-ff Fp256); 16 fixed shards; shrinking; replay files; evidence writer"}],
      "checks":checks,
      "not_applicable":na,
      "notes":"See /verif/DESIGN.md. Exit codes: 0 held, 1 VIOLATION, 2 inconclusive (build failure / oracle self-test / watchdog). VERIF_SEED is honoured (default 1).",
    }
    json.dump(m,open('/verif/MANIFEST.json','w'),indent=1)
    print("checks:",len(checks),"not_applicable:",len(na))
main()
