#!/bin/bash
# Entry point named in MANIFEST.json.
#   run.sh <ID> quick|thorough     run the check for one property (rebuilds from /repo's working tree first)
#   run.sh replay <file>           re-execute one saved case (no proptest involved)
#   run.sh build                   build the harness (both profiles)
# exit 0 = held on everything explored, 1 = VIOLATION line printed, 2 = inconclusive (build / oracle / watchdog)
set -u
export CARGO_NET_OFFLINE=true
H=/verif/harness
if [ "${1:-}" = replay ] && [ -n "${2:-}" ]; then set -- replay "$(readlink -f "$2")"; fi
cd "$H" || { echo "INCONCLUSIVE: no harness dir"; exit 2; }

build_profile() {
  local prof="$1" log="$H/target/build-$1.log"
  mkdir -p "$H/target"
  # serialise concurrent builds (cargo also locks, but keep logs readable)
  if ! flock "$H/target/.build.lock" cargo build --offline --profile "$prof" >"$log" 2>&1; then
    echo "INCONCLUSIVE: harness build ($prof) failed; see $log"
    grep -E "^error" -A8 "$log" | head -40
    exit 2
  fi
}

# third configuration: release + `-C target-cpu=native`, so that code selected by cfg(target_feature = ..) is compiled and
# exercised too (own target dir; RUSTFLAGS replaces the build.rustflags of .cargo/config.toml, hence the --cfg again)
build_native() {
  [ "${VERIF_NATIVE:-1}" = 0 ] && return 0
  local log="$H/target/build-native.log" nat="$H/target-native"
  mkdir -p "$H/target"
  # `-C target-cpu=native` bakes the build machine's instruction set into the binary and cargo cannot see a change of CPU:
  # remember the CPU flags the directory was built for and start over when they differ (restored snapshot on another host)
  local cpu; cpu=$(grep -m1 '^flags' /proc/cpuinfo 2>/dev/null | md5sum | cut -c1-16)
  (
    flock 9
    if [ -d "$nat" ] && [ "$(cat "$nat/.cpu" 2>/dev/null)" != "$cpu" ]; then rm -rf "$nat"; fi
    mkdir -p "$nat"; echo "$cpu" > "$nat/.cpu"
    SM9VERIF_VARIANT=native RUSTFLAGS="--cfg john_yu_sm9_core_verif -C target-cpu=native" \
      cargo build --offline --release --target-dir "$nat" >"$log" 2>&1
  ) 9>"$H/target/.build-native.lock"
  if [ $? -ne 0 ]; then
    echo "INCONCLUSIVE: harness build (native) failed; see $log"
    grep -E "^error" -A8 "$log" | head -40
    exit 2
  fi
  # the additional configuration must never turn a run on this machine into a failure: if the binary cannot even run its
  # oracle self-test here because the process is killed (illegal instruction), this run goes without it and says so
  "$nat/release/sm9check" selftest >/dev/null 2>&1; local st=$?
  if [ $st -ge 126 ]; then   # killed by a signal (SIGILL = 132) or not executable - not an oracle problem (that is exit 2)
    echo "note: native-configuration binary does not run on this machine (status $st); continuing without it (VERIF_NATIVE=0)"
    export VERIF_NATIVE=0
  fi
}

needs_dbg() { case "$1" in C08|C18|c08|c18) return 0;; *) return 1;; esac; }

case "${1:-}" in
  build)
    build_profile release; build_profile dbg; build_native; echo "build ok"; exit 0;;
  replay)
    [ $# -ge 2 ] || { echo "usage: run.sh replay <file>"; exit 2; }
    build_profile release
    "$H/target/release/sm9check" replay "$2"; rc=$?
    if [ $rc -eq 0 ] && [ -x "$H/target/dbg/sm9check" ]; then
      id=$(python3 -c "import json,sys;print(json.load(open(sys.argv[1])).get('property',''))" "$2" 2>/dev/null)
      if needs_dbg "$id"; then build_profile dbg; "$H/target/dbg/sm9check" replay "$2"; rc=$?; fi
    fi
    if [ $rc -eq 0 ] && [ "${VERIF_NATIVE:-1}" != 0 ]; then
      build_native
      if [ "${VERIF_NATIVE:-1}" != 0 ]; then "$H/target-native/release/sm9check" replay "$2"; rc=$?; fi
    fi
    exit $rc;;
  "") echo "usage: run.sh <ID> quick|thorough | replay <file> | build"; exit 2;;
esac

ID="$1"; TIER="${2:-${VERIF_TIER:-quick}}"
build_profile release
if needs_dbg "$ID"; then build_profile dbg; fi
build_native
"$H/target/release/sm9check" run "$ID" "$TIER"; rc=$?
if [ $rc -ne 0 ]; then exit $rc; fi
if [ "$TIER" = thorough ] && [ -x /verif/fuzz/campaign.sh ]; then
  /verif/fuzz/campaign.sh "$ID"; rc=$?
fi
exit $rc
