#!/bin/bash
# Coverage-guided campaigns (libFuzzer via cargo-fuzz) for the thorough tier of one property.
#   campaign.sh <ID>
# Builds the targets from /repo's working tree (debug assertions + overflow checks ON, as cargo-fuzz does; no sanitizer:
# the crate forbids unsafe code), runs for each target serving <ID> two campaigns (seeded corpus, empty corpus), each as
# $PROCS independent processes with seeds VERIF_SEED*1000+i and a fixed -runs budget, then merges the statistics into
# /verif/evidence/<ID>.json. A crash is re-executed through the release binary: reproduced => VIOLATION (exit 1),
# not reproduced => INCONCLUSIVE (exit 2).
set -u
ID="$1"
export CARGO_NET_OFFLINE=true
H=/verif/harness; FZ=/verif/fuzz
SEED=${VERIF_SEED:-1}
PROCS=${VERIF_FUZZ_PROCS:-8}
case "$ID" in
  C08|C09|C10) TARGETS="decoders";;
  C13) TARGETS="fieldconv";;
  C07) TARGETS="fieldops fieldconv";;
  C06|C12|C14) TARGETS="fieldops";;
  C16|C03|C04|C05|C15|C01) TARGETS="program";;
  C17) TARGETS="tower";;
  C18) TARGETS="profile decoders fieldconv";;
  *) exit 0;;
esac
runs_for() { case "$1" in decoders) echo ${VERIF_FUZZ_RUNS:-200000};; fieldconv) echo ${VERIF_FUZZ_RUNS:-400000};; fieldops) echo ${VERIF_FUZZ_RUNS:-80000};; program) echo ${VERIF_FUZZ_RUNS:-25000};; tower) echo ${VERIF_FUZZ_RUNS:-100000};; profile) echo ${VERIF_FUZZ_RUNS:-15000};; esac; }
maxlen_for() { case "$1" in decoders) echo 320;; fieldconv) echo 300;; fieldops) echo 1500;; program) echo 300;; tower) echo 1200;; profile) echo 1600;; esac; }

cd "$H" || exit 2
# the release harness re-executes artifacts: make sure it is built from the current /repo tree as well
if ! flock "$H/target/.build.lock" cargo build --offline --profile release >"$H/target/build-release.log" 2>&1; then
  echo "INCONCLUSIVE: harness build failed; see $H/target/build-release.log"; exit 2
fi
LOG=$FZ/target/build.log; mkdir -p $FZ/target
if ! RUSTFLAGS="--cfg john_yu_sm9_core_verif" flock $FZ/target/.lock cargo +nightly fuzz build --fuzz-dir $FZ -s none >"$LOG" 2>&1; then
  echo "INCONCLUSIVE: fuzz build failed; see $LOG"; grep -E "^error" -A6 "$LOG" | head -30; exit 2
fi
BIN=$FZ/target/x86_64-unknown-linux-gnu/release
W=/verif/work/fuzz/$ID-$$; rm -rf "$W"; mkdir -p "$W"
trap 'rm -rf "$W"' EXIT
STATS="$W/stats.jsonl"; : > "$STATS"
rc=0
for T in $TARGETS; do
  [ -x "$BIN/$T" ] || { echo "INCONCLUSIVE: fuzz binary $T missing"; exit 2; }
  "$H/target/release/sm9check" fuzz-seeds "$T" "$W/seeds-$T" >/dev/null || { echo "INCONCLUSIVE: cannot write seeds"; exit 2; }
  RUNS=$(runs_for $T); ML=$(maxlen_for $T)
  for CAMP in seeded empty; do
    pids=()
    for i in $(seq 1 $PROCS); do
      C="$W/$T-$CAMP-$i"; mkdir -p "$C/corpus" "$C/art"
      if [ $CAMP = seeded ]; then S=$((SEED*1000 + i)); else S=$((SEED*1000 + 500 + i)); fi
      if [ $CAMP = seeded ]; then SEEDDIR="$W/seeds-$T"; else SEEDDIR=""; fi
      ( "$BIN/$T" "$C/corpus" $SEEDDIR -runs=$RUNS -seed=$S -len_control=0 -max_len=$ML -timeout=60 -rss_limit_mb=4096 \
          -max_total_time=${VERIF_FUZZ_MAXTIME:-420} -artifact_prefix="$C/art/" -print_final_stats=1 >"$C/log" 2>&1; echo $? >"$C/rc" ) &
      pids+=($!)
    done
    wait "${pids[@]}"
    for i in $(seq 1 $PROCS); do
      C="$W/$T-$CAMP-$i"
      r=$(cat "$C/rc" 2>/dev/null || echo 99)
      execs=$(grep -E "stat::number_of_executed_units" "$C/log" | awk '{print $2}')
      cov=$(grep -E "cov: [0-9]+" -o "$C/log" | tail -1 | awk '{print $2}')
      corp=$(ls "$C/corpus" | wc -l)
      echo "{\"target\":\"$T\",\"campaign\":\"$CAMP\",\"proc\":$i,\"campaign_seed_base\":$((SEED*1000)),\"runs_budget\":$RUNS,\"executions\":${execs:-0},\"edges_covered\":${cov:-0},\"corpus_files\":$corp,\"exit\":$r}" >> "$STATS"
      if [ "$r" != 0 ]; then
        art=$(ls "$C/art" 2>/dev/null | head -1)
        if [ -n "$art" ]; then
          mkdir -p /verif/replays; keep=/verif/replays/fuzz-$T-$art; cp "$C/art/$art" "$keep"
          "$H/target/release/sm9check" replay-fuzz "$T" "$keep"; rr=$?
          if [ $rr -eq 1 ]; then rc=1; elif [ $rc -eq 0 ]; then
            # libFuzzer runs the debug-assertion build: a crash that the release replay does not show is reported for C18 only
            if grep -q "attempt to\|assertion failed\|overflow" "$C/log" && [ "$ID" = C18 ]; then
              echo "failure: debug-assertion build crashed on $keep (release build does not): $(grep -m1 'panicked at' -A1 "$C/log" | tr '\n' ' ')"
              echo "VIOLATION property=C18 replay=$keep"; rc=1
            else
              echo "INCONCLUSIVE: fuzz target $T crashed (exit $r) but the release replay of $keep passes; log tail:"; tail -5 "$C/log"; rc=2
            fi
          fi
        else
          echo "INCONCLUSIVE: fuzz target $T exited with $r and left no artifact; log tail:"; tail -5 "$C/log"; [ $rc -eq 0 ] && rc=2
        fi
      fi
    done
    [ $rc -ne 0 ] && break 2
  done
done
python3 - "$ID" "$STATS" <<'PY'
import json,sys
i,st=sys.argv[1],sys.argv[2]
rows=[json.loads(l) for l in open(st)]
import os
p=os.environ.get('VERIF_EVIDENCE_DIR','/verif/evidence')+'/%s.json'%i
try: e=json.load(open(p))
except Exception: sys.exit(0)
e['coverage']['fuzz']={'engine':'libFuzzer (cargo-fuzz 0.13, debug assertions + overflow checks on, sanitizer none)','processes':rows,
  'total_executions':sum(r['executions'] for r in rows),'note':'oracle inside the target: the bytes are the genome of the same check; campaigns pinned by -runs/-seed only approximately'}
e['coverage']['evaluations']=e['coverage']['evaluations']+sum(r['executions'] for r in rows)
json.dump(e,open(p,'w'),indent=1)
print("fuzz: %d executions over %d processes"%(sum(r['executions'] for r in rows),len(rows)))
PY
exit $rc
