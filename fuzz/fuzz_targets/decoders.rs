#![no_main]
// coverage-guided search for C08: the bytes are the genome of the same check the proptest runner uses,
// so the semantic oracle is inside the target (a crash here is an oracle failure, not just a memory error).
use libfuzzer_sys::fuzz_target;
fuzz_target!(|data: &[u8]| {
    sm9verif::fuzzglue::run_decoders(data);
});
