#![no_main]
// coverage-guided search over field operations: first byte selects C06 (Fq/Fr arithmetic), C07 (histories),
// C12 (Fq2) or C14 (square roots); the rest is the genome of that check.
use libfuzzer_sys::fuzz_target;
fuzz_target!(|data: &[u8]| {
    if data.is_empty() {
        return;
    }
    let id = ["C06", "C07", "C12", "C14"][(data[0] & 3) as usize];
    sm9verif::fuzzglue::run(id, &data[1..]);
});
